"""habutax verification harness (model checking of the implementation)."""
import os, sys
sys.dont_write_bytecode = True
REPO = os.environ.get('HV_REPO', '/repo')
if sys.path[0] != REPO:
    sys.path.insert(0, REPO)
VERIF = os.path.dirname(os.path.dirname(os.path.abspath(__file__)))
