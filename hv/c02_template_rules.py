"""C02, source (1): instructions read from the bundled official templates.

The IRS templates carry, for every fillable field, an accessibility text (`speak`) which starts with the printed
line number and usually repeats the printed instruction, e.g.

    "4. Subtract line 3 from line 1. If line 3 is more than line 1, enter 0."

`derive(year)` maps every (form, line) of the year's catalogue whose template text is an instruction of the small
grammar below to an instruction record (IR).  Nothing here looks at the habutax line functions: only at the line
NAMES of a form (to find the template field through `form.pdf_fields()` and to expand "lines a through b" in the
printed order) and at the template text.

Grammar (one operative sentence per line, else no rule):
    Add lines a, b, and c. | Add lines a through b [, c ...]. | Combine lines ...      -> sum
    Subtract line a from line b.                                                       -> b - a
    Multiply line a by p% (0.xx). | Multiply line a by $N. | Multiply line a by line b.-> product
    Divide line a by line b. (+ "rounded to at least 3 places", "1.000 or more")       -> ratio
    Enter the smaller|larger of line a or [line] b. | ... or $N ($M if married filing separately).
    Enter [the] amount from line a. | Enter [the] amount from Form 1040 ..., line a. | ... from line a of your Form 1040 ...
modifiers (further sentences of the same text):
    If zero or less, enter 0.  /  If line a is more than line b, enter 0.              -> floor at zero
    If greater than zero, enter 0.                                                     -> cap at zero
    If more than zero and not a multiple of $N, enter the next multiple of $N.         -> round up to a multiple
Where the reading is not unique (a second operative sentence, "otherwise", "whichever applies", "But if ...",
a conditional operative sentence such as "If line 33 is more than line 24, subtract ...") no rule is derived.
"""
import os
import re

LBL = r'\d+[a-z]{0,2}'
_OPERATIVE = re.compile(r'^(Add lines |Combine lines |Subtract line |Multiply line |Divide line |Enter the (?:smaller|larger) of |'
                        r'Enter (?:the )?amounts? from )', re.I)
_AMBIG = re.compile(r'\b(otherwise|instead|whichever|But if|see the instructions for the amount)\b', re.I)

# template rules that are NOT used, with the reason (the transcription table has the line instead)
SUPPRESSED = {
    ('1040', '37'): 'face text "Subtract line 33 from line 24" has no floor clause: the line is only filled when line 24 exceeds '
                    'line 33 (heading "Amount You Owe") and the instructions add the line 38 penalty',
}


def _money(s):
    return float(s.replace(',', ''))


def _sentences(text):
    out = [s.strip() for s in re.split(r'(?<=[.;?])\s+', text) if s.strip()]
    return out


def _tail(speak, label):
    """text after the line's own printed number, or None"""
    speak = re.sub(r'\s+', ' ', speak).strip()
    for m in re.finditer(r'(?<![0-9A-Za-z])' + re.escape(label) + r'\. ', speak, re.I):
        pre = speak[:m.start()]
        if pre == '' or pre.endswith('. ') or pre.endswith(': ') or pre.endswith('.'):
            return speak[m.end():]
        return None        # the first occurrence decides
    return None


def _expand(items_text, order):
    """'1z, 2b, 3b, and 8' / '1 through 4, 5a, 5b, and 7' / '27a and 28 through 31' -> [labels] or None"""
    t = items_text.strip().rstrip('.')
    t = re.sub(r',? and ', ', ', t)
    parts = [p.strip() for p in t.split(',') if p.strip()]
    out = []
    for p in parts:
        m = re.fullmatch(rf'({LBL}) through ({LBL})', p)
        if m:
            a, b = m.group(1).lower(), m.group(2).lower()
            if a not in order or b not in order:
                return None
            i, j = order.index(a), order.index(b)
            if i >= j:
                return None
            out.extend(order[i:j + 1])
        elif re.fullmatch(LBL, p):
            if p.lower() not in order:
                return None
            out.append(p.lower())
        else:
            return None
    if len(out) < 2 or len(set(out)) != len(out):
        return None
    return out


def parse(tail, order):
    """tail: text after the printed line number; order: numeric line names of the form in printed order.
    -> IR dict or None"""
    if _AMBIG.search(tail):
        return None
    sents = _sentences(tail)
    ops = [s for s in sents if _OPERATIVE.match(s)]
    if len(ops) != 1:
        return None
    s = ops[0]
    ir = None
    m = re.match(r'^(Add|Combine) lines (.+?)\.?$', s)
    if m and ir is None:
        items = _expand(m.group(2), order)
        if items is None:
            return None
        ir = dict(op='sum', kind='sum' if m.group(1) == 'Add' else 'combine', lines=items)
    m = re.match(rf'^Subtract line ({LBL}) from line ({LBL})\.?$', s)
    if m and ir is None:
        ir = dict(op='diff', kind='difference', a=m.group(1).lower(), b=m.group(2).lower())
    m = re.match(rf'^Multiply line ({LBL}) by (.+?)\.?$', s)
    if m and ir is None:
        a, rhs = m.group(1).lower(), m.group(2).strip()
        mm = re.fullmatch(r'([\d.]+) ?% \(([\d.]+)\)', rhs)
        if mm:
            pct, dec = float(mm.group(1)), float(mm.group(2))
            if abs(pct / 100.0 - dec) > 1e-12:
                return None
            ir = dict(op='mulc', kind='product', a=a, k=dec)
        elif re.fullmatch(r'\$[\d,]+', rhs):
            ir = dict(op='mulc', kind='product', a=a, k=_money(rhs[1:]))
        elif re.fullmatch(rf'line ({LBL})', rhs):
            ir = dict(op='mull', kind='product', a=a, b=rhs[5:].lower())
        else:
            return None
    m = re.match(rf'^Divide line ({LBL}) by line ({LBL})\.?$', s)
    if m and ir is None:
        ir = dict(op='div', kind='ratio', a=m.group(1).lower(), b=m.group(2).lower(), cap=None, places=None)
        for o in sents:
            mm = re.search(r'rounded to at least (\d|three) places', o)
            if mm:
                ir['places'] = 3 if mm.group(1) == 'three' else int(mm.group(1))
            if re.match(r'^If the result is 1\.000 or more, enter .?1\.000', o):
                ir['cap'] = 1.0
        if ir['places'] is None:
            return None
    m = re.match(rf'^Enter the (smaller|larger) of line ({LBL}) or (?:line )?({LBL})(?: here\b.*)?\.?$', s)
    if m and ir is None:
        ir = dict(op='minmax', kind=m.group(1), which=m.group(1), args=[('line', m.group(2).lower()), ('line', m.group(3).lower())])
    m = re.match(rf'^Enter the (smaller|larger) of line ({LBL}) or \$([\d,]+) \(\$([\d,]+) if married filing separately\)\.?$', s)
    if m and ir is None:
        ir = dict(op='minmax', kind=m.group(1), which=m.group(1),
                  args=[('line', m.group(2).lower()), ('mfs', _money(m.group(3)), _money(m.group(4)))])
    m = re.match(rf'^Enter (?:the )?amount from line ({LBL})\.?$', s)
    if m and ir is None:
        ir = dict(op='copy', kind='carry', ref=m.group(1).lower())
    m = (re.match(rf'^Enter (?:the )?amount from Form 1040(?: or 1040-S ?R)?, line ({LBL})\.?$', s)
         or re.match(rf'^Enter the amount from line ({LBL}) of your Form 1040, 1040-S ?R, or 1040-N ?R\.?$', s))
    if m and ir is None:
        ir = dict(op='copy', kind='carry', ref='1040.' + m.group(1).lower())
    if ir is None:
        return None
    ir['floor0'] = ir['cap0'] = False
    ir['ceil_multiple'] = None
    for o in sents:
        if o is s:
            continue
        if re.match(r'^If zero or less, enter (0|-0-)', o):
            ir['floor0'] = True
        mm = re.match(rf'^If line ({LBL}) is more than line ({LBL}), enter (0|-0-)', o)
        if mm:
            if ir['op'] == 'diff' and (mm.group(1).lower(), mm.group(2).lower()) == (ir['a'], ir['b']):
                ir['floor0'] = True
            else:
                return None
        if re.match(r'^If greater than zero, enter 0', o):
            ir['cap0'] = True
        mm = re.match(r'^If more than zero and not a multiple of \$([\d,]+), enter the next multiple of \$([\d,]+)', o)
        if mm:
            if mm.group(1) != mm.group(2):
                return None
            ir['ceil_multiple'] = _money(mm.group(1))
    if ir['floor0'] and ir['cap0']:
        return None
    ir['text'] = ' '.join(x for x in sents if x is s or re.match(r'^If (zero|line|greater|more than zero|the result)', x)
                          or 'rounded to at least' in x)[:200]
    return ir


def operands(ir):
    op = ir['op']
    if op == 'sum':
        return list(ir['lines'])
    if op in ('diff', 'mull', 'div'):
        return [ir['a'], ir['b']]
    if op == 'mulc':
        return [ir['a']]
    if op == 'minmax':
        return [a[1] for a in ir['args'] if a[0] == 'line']
    if op == 'copy':
        return [ir['ref']]
    return []


def form_objects(year):
    """{form_name: form object} of the non-input forms of the year"""
    from habutax.forms import available_forms
    from habutax.form import InputForm
    out = {}
    for C in available_forms[year]:
        if issubclass(C, InputForm):
            continue
        try:
            f = C(instance=None)
        except Exception:
            f = C(instance=getattr(C, 'valid_instances', ['0'])[0])
        out[C.form_name] = f
    return out


def numeric_lines(form):
    """[(name, places)] of the Float / Integer lines in declaration order (lower-cased like the solution keys)"""
    from habutax import fields as hf
    out = []
    for fl in form.fields():
        if isinstance(fl, hf.FloatField):
            out.append((fl.base_name().lower(), fl._places))
        elif isinstance(fl, hf.IntegerField):
            out.append((fl.base_name().lower(), 0))
    return out


def derive(year):
    """-> ({(form, line): IR}, report)  IR additionally carries places, pdf (template file), field (template field name)"""
    from hv import pdfread
    rules, report = {}, dict(fields_with_text=0, lines_with_label=0, derived=0, suppressed=[], by_form={})
    for fname, form in form_objects(year).items():
        path = form.pdf_file()
        if not path or not os.path.isfile(path):
            continue
        try:
            T = pdfread.template_fields(path)
        except Exception:
            continue
        nl = numeric_lines(form)
        places = dict(nl)
        order = [n for n, _ in nl if re.fullmatch(LBL, n)]
        maps = {}
        for pf in form.pdf_fields():
            maps.setdefault(pf.field_name.lower(), []).append(pf.pdf_field_name)
        paren = set()
        cand = {}
        for line in order:
            for pdfname in maps.get(line, []):
                sp = (T.get(pdfname) or {}).get('speak') or ''
                if not sp:
                    continue
                report['fields_with_text'] += 1
                tail = _tail(sp, line)
                if tail is None:
                    continue
                report['lines_with_label'] += 1
                if 'Open parenthesis' in tail:
                    paren.add(line)
                ir = parse(tail, order)
                if ir is not None:
                    ir.update(places=ir.get('places') if ir['op'] == 'div' else None, line_places=places[line],
                              pdf=os.path.basename(path), field=pdfname)
                    cand[line] = ir
                break
        for line, ir in cand.items():
            ops = operands(ir)
            if any(('.' not in o) and (o not in places) for o in ops):
                continue
            if line in ops:
                continue
            ir['negative_display'] = sorted(o for o in ops if o in paren)
            if (fname, line) in SUPPRESSED:
                report['suppressed'].append((fname, line, SUPPRESSED[(fname, line)]))
                continue
            rules[(fname, line)] = ir
            report['derived'] += 1
            report['by_form'][fname] = report['by_form'].get(fname, 0) + 1
    return rules, report


if __name__ == '__main__':
    import sys
    import hv  # noqa: F401  (puts the repo on sys.path)
    for y in (2021, 2022, 2023):
        rules, rep = derive(y)
        print(f'## {y}: {rep["derived"]} template rules; by form {rep["by_form"]}; suppressed {[(a, b) for a, b, _ in rep["suppressed"]]}')
        if '-v' in sys.argv:
            for (f, l), ir in sorted(rules.items()):
                print(f'   {f}.{l}: {ir["text"]!r}  -> {ir["op"]} {operands(ir)} floor0={ir["floor0"]} cap0={ir["cap0"]} '
                      f'ceil={ir["ceil_multiple"]} neg={ir["negative_display"]}')
