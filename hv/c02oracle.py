"""C02 oracle: every computed line equals what the official form instructs for it.

    check_solution(year, solution, inputs=None, partial=False) -> (errors, stats)

`solution` is {section: {line: string}} exactly as Solver.solution() renders it.  The oracle is a table, per year and
form, of line -> instruction; an instruction is a small function over an accessor `c`:

    c.L('12')            float value of line 12 of the same form instance ('' / absent optional line -> 0.0;
                         absent from a PARTIAL solution -> Skip)
    c.L('1040.11')       a line of another form;  c.B(...) booleans;  c.S(...) strings
    c.each('w-2', 'box_1')  the values of a line over all instances of a multi-copy form

Two sources, every rule is labelled with its source:
  TEMPLATE       derived by hv.c02_template_rules from the accessibility text of the bundled official template
  TRANSCRIPTION  written by hand from the official forms / instructions, each with a citation (NOT copied from
                 the habutax line functions; the form modules were read only for the line names)
A line that has both keeps the TEMPLATE rule for alarms; the transcription is evaluated as a cross-check of the
oracle itself (stats['oracle_conflicts']).  A line without a rule is never an alarm: it narrows the claim and is
listed (lines_without_oracle).
"""
import functools
import re

import hv  # noqa: F401
from hv import c02_template_rules as TR
from hv import statutory

YEARS = (2021, 2022, 2023)
EPS = 1e-6


class Skip(Exception):
    """an operand is absent from a partial solution (or shown in parentheses with an unknown sign convention)"""


class SourceAbsent(Exception):
    """the source end of a carry is absent from a complete solution although the return says it is needed"""


class Ctx(object):
    __slots__ = ('year', 'sol', 'sec', 'kv', 'partial', 'inputs', 'ops', 'refs')

    def __init__(self, year, sol, sec, partial, inputs):
        self.year, self.sol, self.sec, self.kv = year, sol, sec, sol[sec]
        self.partial, self.inputs, self.ops, self.refs = partial, inputs, [], []

    def _raw(self, ref):
        if '.' in ref:
            sec, k = ref.split('.', 1)
            kv = self.sol.get(sec)
            if kv is None:
                if self.partial:
                    raise Skip(ref)
                return None
        else:
            sec, kv, k = self.sec, self.kv, ref
        self.refs.append((sec, k))
        v = kv.get(k)
        if v is None and self.partial:
            raise Skip(ref)
        return v

    def has(self, ref):
        if '.' in ref:
            sec, k = ref.split('.', 1)
            return k in self.sol.get(sec, ())
        return ref in self.kv

    def has_form(self, form):
        return form in self.sol

    def L(self, ref):
        v = self._raw(ref)
        x = float(v) if v not in (None, '') else 0.0
        self.ops.append(x)
        return x

    def Lreq(self, ref):
        """a line that must have been produced (source end of a carry the return declares as needed)"""
        v = self._raw(ref)
        if v is None:
            raise SourceAbsent(ref)
        x = float(v) if v != '' else 0.0
        self.ops.append(x)
        return x

    def B(self, ref):
        v = self._raw(ref)
        return v == 'True'

    def S(self, ref):
        v = self._raw(ref)
        return v or ''

    def status(self):
        return self.S('1040.filing_status')

    def instances(self, form):
        p = form + ':'
        return [s for s in self.sol if s.startswith(p)]

    def each(self, form, line, where=None):
        """values of `line` over every instance of a multi-copy form present in the solution"""
        out = []
        inst = self.instances(form)
        if not inst and self.partial:
            raise Skip(form + ':*')
        for s in inst:
            kv = self.sol[s]
            if where is not None and not where(kv):
                continue
            v = kv.get(line)
            if v is None:
                if self.partial:
                    raise Skip(f'{s}.{line}')
                v = ''
            x = float(v) if v != '' else 0.0
            self.refs.append((s, line))
            self.ops.append(x)
            out.append(x)
        return out

    def I(self, name):
        """an answer of the return (None when unknown)"""
        if self.inputs is None:
            return None
        return self.inputs.get(name)

    def yes(self, name):
        v = self.I(name)
        if v is None:
            return None
        return str(v).strip().lower() in ('yes', 'true', 'y', '1')


class Rule(object):
    __slots__ = ('form', 'line', 'kind', 'fn', 'source', 'cite', 'places', 'tol', 'cmp', 'abs_compare', 'crosscheck')

    def __init__(self, form, line, kind, fn, source, cite, places=2, tol=None, cmp='eq', abs_compare=False):
        self.form, self.line, self.kind, self.fn, self.source, self.cite = form, line, kind, fn, source, cite
        self.places, self.tol, self.cmp, self.abs_compare, self.crosscheck = places, tol, cmp, abs_compare, False


# ---------------------------------------------------------------------------------------------------------------
# TEMPLATE rules: IR -> function
def _ceil_multiple(x, m):
    if x <= 0:
        return x
    q = x / m
    n = int(q)
    if q - n > 1e-9:
        n += 1
    return n * m


def compile_ir(ir):
    op = ir['op']
    neg = ir.get('negative_display') or []
    floor0, cap0, ceilm = ir['floor0'], ir['cap0'], ir['ceil_multiple']

    def post(c, x):
        for o in neg:
            if abs(c.L(o)) > 0:
                c.ops.pop()
                raise Skip('parenthesized operand ' + o)
            c.ops.pop()
        if floor0 and x < 0:
            x = 0.0
        if cap0 and x > 0:
            x = 0.0
        if ceilm:
            x = _ceil_multiple(x, ceilm)
        return x
    if op == 'sum':
        lines = ir['lines']
        return lambda c: post(c, sum(c.L(x) for x in lines))
    if op == 'diff':
        a, b = ir['a'], ir['b']
        return lambda c: post(c, c.L(b) - c.L(a))
    if op == 'mulc':
        a, k = ir['a'], ir['k']
        return lambda c: post(c, c.L(a) * k)
    if op == 'mull':
        a, b = ir['a'], ir['b']
        return lambda c: post(c, c.L(a) * c.L(b))
    if op == 'div':
        a, b, cap = ir['a'], ir['b'], ir['cap']

        def f(c):
            x, y = c.L(a), c.L(b)
            if y == 0:
                return None
            q = x / y
            if cap is not None and q >= cap:
                q = cap
            return q
        return f
    if op == 'minmax':
        args, which = ir['args'], min if ir['which'] == 'smaller' else max

        def f(c):
            vals = []
            for a in args:
                if a[0] == 'line':
                    vals.append(c.L(a[1]))
                elif a[0] == 'mfs':
                    st = c.status()
                    if not st:
                        raise Skip('filing status')
                    vals.append(a[2] if st == 'MarriedFilingSeparately' else a[1])
            return post(c, which(vals))
        return f
    if op == 'copy':
        ref = ir['ref']
        return lambda c: post(c, c.L(ref))
    raise ValueError(op)


def template_rules(year):
    irs, report = TR.derive(year)
    out = []
    for (form, line), ir in irs.items():
        places = ir['line_places']
        tol = None
        if ir['op'] == 'div':
            # "rounded to at least N places": any rendering with >= N places is within half a unit of the N-th place
            tol = 0.5 * 10 ** (-ir['places'])
        r = Rule(form, line, ir['kind'], compile_ir(ir), 'TEMPLATE', f'{ir["pdf"]} field {ir["field"]}: "{ir["text"]}"',
                 places=places, tol=tol, abs_compare=False)
        out.append(r)
    return out, report


# ---------------------------------------------------------------------------------------------------------------
# helpers for the transcription table
def SUM(*refs):
    return lambda c: sum(c.L(r) for r in refs)


def DIFF(b, a, floor=False):
    """b - a"""
    if floor:
        return lambda c: max(0.0, c.L(b) - c.L(a))
    return lambda c: c.L(b) - c.L(a)


def MUL(a, k):
    return lambda c: c.L(a) * k


def MIN(*refs):
    return lambda c: min(c.L(r) for r in refs)


def CARRY(ref):
    return lambda c: c.L(ref)


def CONST(k):
    return lambda c: k


def BYSTATUS(table):
    """table: {status name: amount}; '*' = every other status"""
    def f(c):
        st = c.status()
        if not st:
            raise Skip('filing status')
        return table[st] if st in table else table['*']
    return f


TRANSCRIBED = {y: [] for y in YEARS}


def T(years, form, line, kind, fn, cite, places=2, tol=None, cmp='eq', abs_compare=False):
    for y in years:
        TRANSCRIBED[y].append(Rule(form, line, kind, fn, 'TRANSCRIPTION', cite, places, tol, cmp, abs_compare))


Y21, Y22, Y23 = (2021,), (2022,), (2023,)
Y2223 = (2022, 2023)
ALL = YEARS
JOINT = ('MarriedFilingJointly', 'QualifyingSurvivingSpouse', 'QualifyingWidowWidower')


@functools.lru_cache(maxsize=200000)
def _tax(year, status, cents):
    # at or above $100,000 the unrounded bracket formula: an exact half-cent result may be rounded either way by binary
    # floating point (the rules using this carry tol=0.0051, the tolerance C07 uses)
    if cents >= 100000 * 100:
        from fractions import Fraction
        return float(statutory.tax_formula(year, status, Fraction(cents, 100)))
    return float(statutory.expected_tax(year, status, cents / 100.0))


def TAX_ON(ref):
    """'Figure the tax on the amount on line N' (Tax Table under $100,000, Tax Computation Worksheet from there)"""
    def f(c):
        st = c.status()
        if not st:
            raise Skip('filing status')
        x = c.L(ref)
        return _tax(c.year, st, int(round(x * 100)))
    return f


# ===============================================================================================================
# TRANSCRIPTION, Form 1040
def _w2(c, box):
    return sum(c.each('w-2', box))


def _f1040_2b(c):
    # Form 1040 line 2b: "Taxable interest. Attach Sch. B if required"; Schedule B line 4: "Enter the result here and on
    # Form 1040 or 1040-SR, line 2b".  Without Schedule B the line is the taxable interest of the Forms 1099-INT
    # (box 1 interest income, box 3 interest on U.S. savings bonds and Treasury obligations).
    if c.has('1040_sb.4'):
        return c.L('1040_sb.4')
    if c.has_form('1040_sb') and c.partial:
        raise Skip('1040_sb.4')
    for b in ('box_10', 'box_11', 'box_12', 'box_13'):
        if any(c.each('1099-int', b)):
            return None     # market discount / bond premium adjustments
    return sum(c.each('1099-int', 'box_1')) + sum(c.each('1099-int', 'box_3'))


def _f1040_3b(c):
    if c.has('1040_sb.6'):
        return c.L('1040_sb.6')
    if c.has_form('1040_sb') and c.partial:
        raise Skip('1040_sb.6')
    return sum(c.each('1099-div', 'box_1a'))


T(Y21, '1040', '1', 'includes', lambda c: _w2(c, 'box_1'),
  'Form 1040 (2021) line 1: Wages, salaries, tips, etc. Attach Form(s) W-2 [instructions: the total of box 1 of all Forms W-2, plus other wages]',
  cmp='ge')
T(Y2223, '1040', '1a', 'carry', lambda c: _w2(c, 'box_1'),
  'Form 1040 (2022/2023) line 1a: Total amount from Form(s) W-2, box 1')
T(Y2223, '1040', '1z', 'sum', SUM('1a', '1b', '1c', '1d', '1e', '1f', '1g', '1h'),
  'Form 1040 (2022/2023) line 1z: Add lines 1a through 1h')
T(ALL, '1040', '2a', 'carry', lambda c: sum(c.each('1099-int', 'box_8')) + sum(c.each('1099-div', 'box_12')),
  'Form 1040 line 2a instructions: tax-exempt interest of Form 1099-INT box 8 and exempt-interest dividends of Form 1099-DIV box 12')
T(ALL, '1040', '2b', 'carry', _f1040_2b,
  'Form 1040 line 2b / Schedule B line 4: "Enter the result here and on Form 1040 or 1040-SR, line 2b"; without Schedule B the '
  'taxable interest of Forms 1099-INT boxes 1 and 3')
T(ALL, '1040', '3a', 'carry', lambda c: sum(c.each('1099-div', 'box_1b')),
  'Form 1040 line 3a instructions: qualified dividends, Form(s) 1099-DIV box 1b')
T(ALL, '1040', '3b', 'carry', _f1040_3b,
  'Form 1040 line 3b / Schedule B line 6: "Enter the total here and on Form 1040 or 1040-SR, line 3b"; without Schedule B the '
  'total of Form(s) 1099-DIV box 1a')


def _f1040_4b(c):
    tot = 0.0
    for s in c.instances('8606'):
        kv = c.sol[s]
        for k in ('15c', '18'):
            if k in kv and kv[k] != '':
                x = float(kv[k])
                c.ops.append(x)
                tot += max(0.0, x)
    if not c.instances('8606'):
        return None
    return tot


T(ALL, '1040', '4b', 'includes', _f1040_4b,
  'Form 8606 lines 15c and 18: "If more than zero, also include this amount on Form 1040, 1040-SR, or 1040-NR, line 4b"', cmp='ge')


def _f1040_7(c):
    if not c.B('7_checkbox'):
        return None
    return sum(c.each('1099-div', 'box_2a'))


T(ALL, '1040', '7', 'carry', _f1040_7,
  'Form 1040 line 7 instructions: if Schedule D is not required, enter the capital gain distributions of Form(s) 1099-DIV box 2a '
  'and check the box')
T(ALL, '1040', '8', 'carry', CARRY('1040_s1.10'), 'Form 1040 line 8: Other/Additional income from Schedule 1, line 10')
T(Y21, '1040', '9', 'sum', SUM('1', '2b', '3b', '4b', '5b', '6b', '7', '8'),
  'Form 1040 (2021) line 9: Add lines 1, 2b, 3b, 4b, 5b, 6b, 7, and 8')
T(Y2223, '1040', '9', 'sum', SUM('1z', '2b', '3b', '4b', '5b', '6b', '7', '8'),
  'Form 1040 (2022/2023) line 9: Add lines 1z, 2b, 3b, 4b, 5b, 6b, 7, and 8')
T(ALL, '1040', '10', 'carry', CARRY('1040_s1.26'), 'Form 1040 line 10: Adjustments to income from Schedule 1, line 26')
T(ALL, '1040', '11', 'difference', DIFF('9', '10'), 'Form 1040 line 11: Subtract line 10 from line 9')
T(Y21, '1040', '12a', 'carry', lambda c: c.L('1040_sa.17') if c.B('itemizing') else None,
  'Form 1040 (2021) line 12a / Schedule A line 17: "Also, enter this amount on Form 1040 or 1040-SR, line 12a"')
T(Y2223, '1040', '12', 'carry', lambda c: c.L('1040_sa.17') if c.B('itemizing') else None,
  'Form 1040 (2022/2023) line 12 / Schedule A line 17: "Also, enter this amount on Form 1040 or 1040-SR, line 12"')


def _f1040_12b(c):
    if c.B('itemizing'):
        return 0.0
    st = c.status()
    if not st:
        raise Skip('filing status')
    return 600.0 if st == 'MarriedFilingJointly' else 300.0


T(Y21, '1040', '12b', 'limit', _f1040_12b,
  'Form 1040 (2021) line 12b: Charitable contributions if you take the standard deduction: up to $300 ($600 if married filing jointly)',
  cmp='le')
T(Y21, '1040', '12c', 'sum', SUM('12a', '12b'), 'Form 1040 (2021) line 12c: Add lines 12a and 12b')
T(ALL, '1040', '13', 'carry', CARRY('8995.15'), 'Form 1040 line 13: Qualified business income deduction from Form 8995 (line 15)')
T(Y21, '1040', '14', 'sum', SUM('12c', '13'), 'Form 1040 (2021) line 14: Add lines 12c and 13')
T(Y2223, '1040', '14', 'sum', SUM('12', '13'), 'Form 1040 (2022/2023) line 14: Add lines 12 and 13')
T(ALL, '1040', '15', 'difference', DIFF('11', '14', floor=True), 'Form 1040 line 15: Subtract line 14 from line 11. If zero or less, enter -0-')


QD = '1040_qualdiv_capgain_tax_wkst'


def _f1040_16_wkst(c):
    if c.has(QD + '.25'):
        return c.L(QD + '.25')
    if c.has_form(QD) and c.partial:
        raise Skip(QD + '.25')
    return None


def _f1040_16_table(c):
    if c.has_form(QD):
        return None
    if c.L('3a') > 0 or c.L('7') > 0:
        return None      # the worksheet is mandatory there; its absence is not judged by this rule
    return TAX_ON('15')(c)


T(ALL, '1040', '16', 'carry', _f1040_16_wkst,
  'Qualified Dividends and Capital Gain Tax Worksheet line 25: "Tax on all taxable income ... Also include this amount on the entry '
  'space on Form 1040 or 1040-SR, line 16"')
T(ALL, '1040', '16', 'tax-table', _f1040_16_table,
  'Form 1040 line 16 instructions: Tax Table (taxable income under $100,000) or Tax Computation Worksheet on line 15',
  tol=0.0051)   # an exact half-cent result of the worksheet formula may be rounded either way (same tolerance as C07)
T(ALL, '1040', '18', 'sum', SUM('16', '17'), 'Form 1040 line 18: Add lines 16 and 17')
T(Y2223, '1040', '19', 'carry', CARRY('1040_s8812.14'),
  'Schedule 8812 (2022/2023) line 14: "Enter this amount on Form 1040, 1040-SR, or 1040-NR, line 19"')
T(Y21, '1040', '19', 'carry', lambda c: c.L('1040_s8812.14h') if c.has('1040_s8812.14h') else None,
  'Schedule 8812 (2021) line 14h: "Enter this amount on line 19 of your Form 1040, 1040-SR, or 1040-NR"')
T(ALL, '1040', '20', 'carry', CARRY('1040_s3.8'), 'Form 1040 line 20: Amount from Schedule 3, line 8')
T(ALL, '1040', '21', 'sum', SUM('19', '20'), 'Form 1040 line 21: Add lines 19 and 20')
T(ALL, '1040', '22', 'difference', DIFF('18', '21', floor=True), 'Form 1040 line 22: Subtract line 21 from line 18. If zero or less, enter -0-')
T(ALL, '1040', '24', 'sum', SUM('22', '23'), 'Form 1040 line 24: Add lines 22 and 23. This is your total tax')
T(ALL, '1040', '25a', 'carry', lambda c: _w2(c, 'box_2'), 'Form 1040 line 25a: Federal income tax withheld from Form(s) W-2 (box 2)')
T(ALL, '1040', '25b', 'carry',
  lambda c: sum(sum(c.each(f, 'box_4')) for f in ('1099-int', '1099-div', '1099-r', '1099-g')),
  'Form 1040 line 25b: Federal income tax withheld from Form(s) 1099 (box 4 of Forms 1099-INT, 1099-DIV, 1099-R, 1099-G)')
T(ALL, '1040', '25c', 'includes', lambda c: c.L('8959.24') if c.has('8959.24') else None,
  'Form 8959 line 24: "Also include this amount with federal income tax withholding on Form 1040, 1040-SR, or 1040-NR, line 25c"', cmp='ge')
T(ALL, '1040', '25d', 'sum', SUM('25a', '25b', '25c'), 'Form 1040 line 25d: Add lines 25a through 25c')
T(Y2223, '1040', '28', 'carry', CARRY('1040_s8812.27'),
  'Schedule 8812 (2022/2023) line 27: "Enter this amount on Form 1040, 1040-SR, or 1040-NR, line 28"')
T(Y21, '1040', '28', 'carry', lambda c: c.L('1040_s8812.14i') if c.has('1040_s8812.14i') else None,
  'Schedule 8812 (2021) line 14i: "Enter this amount on line 28 of your Form 1040, 1040-SR, or 1040-NR"')
T(Y21, '1040', '30', 'carry', CARRY('1040_recovery_rebate_credit_wkst.credit'),
  'Form 1040 (2021) line 30: Recovery rebate credit, from line 14 of the Recovery Rebate Credit Worksheet')
T(Y21, '1040', '32', 'sum', SUM('27a', '28', '29', '30', '31'), 'Form 1040 (2021) line 32: Add lines 27a and 28 through 31')
T(Y2223, '1040', '32', 'sum', SUM('27', '28', '29', '31'), 'Form 1040 (2022/2023) line 32: Add lines 27, 28, 29, and 31')
T(ALL, '1040', '33', 'sum', SUM('25d', '26', '32'), 'Form 1040 line 33: Add lines 25d, 26, and 32. These are your total payments')
T(ALL, '1040', '34', 'difference', DIFF('33', '24', floor=True),
  'Form 1040 line 34: If line 33 is more than line 24, subtract line 24 from line 33. This is the amount you overpaid')


def _f1040_35a(c):
    # same reading as line 37 (C15: refund + amount applied = overpayment): the line 38 penalty is not taken off here
    return c.L('34') - c.L('36')


T(ALL, '1040', '35a', 'difference', _f1040_35a,
  'Form 1040 lines 35a/36: amount of line 34 you want refunded to you / applied to next year\'s estimated tax (35a + 36 = 34)')
T(ALL, '1040', '36', 'limit', CARRY('34'), 'Form 1040 line 36: Amount of line 34 you want applied to your estimated tax', cmp='le')


def _f1040_37(c):
    # Reading fixed by the lead: the face of the form says "Subtract line 33 from line 24"; the instruction booklet adds
    # the line 38 penalty on top, but property C15 (given and fixed) states that overpayment minus amount owed equals
    # payments minus tax, so the penalty is NOT part of line 37 here.
    due = c.L('24') - c.L('33')
    if due > 0:
        return due
    if due < 0:
        return 0.0
    return None


T(ALL, '1040', '37', 'difference', _f1040_37,
  'Form 1040 line 37: Subtract line 33 from line 24. This is the amount you owe (filled only when line 24 is more than line 33; the '
  'line 38 penalty is not added: reading fixed with C15)')

# ---------------------------------------------------------------------------------------------------------------
# Qualified Dividends and Capital Gain Tax Worksheet - Line 16 (Form 1040 instructions), 25 lines, same layout 2021-2023
QD_0 = {2021: {'Single': 40400, 'MarriedFilingSeparately': 40400, 'HeadOfHousehold': 54100, '*': 80800},
        2022: {'Single': 41675, 'MarriedFilingSeparately': 41675, 'HeadOfHousehold': 55800, '*': 83350},
        2023: {'Single': 44625, 'MarriedFilingSeparately': 44625, 'HeadOfHousehold': 59750, '*': 89250}}
QD_15 = {2021: {'Single': 445850, 'MarriedFilingSeparately': 250800, 'HeadOfHousehold': 473750, '*': 501600},
         2022: {'Single': 459750, 'MarriedFilingSeparately': 258600, 'HeadOfHousehold': 488500, '*': 517200},
         2023: {'Single': 492300, 'MarriedFilingSeparately': 276900, 'HeadOfHousehold': 523050, '*': 553850}}
_QC = 'Qualified Dividends and Capital Gain Tax Worksheet (Form 1040 instructions, line 16) '
T(ALL, QD, '1', 'carry', CARRY('1040.15'), _QC + 'line 1: Enter the amount from Form 1040 or 1040-SR, line 15')
T(ALL, QD, '2', 'carry', CARRY('1040.3a'), _QC + 'line 2: Enter the amount from Form 1040 or 1040-SR, line 3a')
T(ALL, QD, '3', 'carry', lambda c: c.L('1040.7') if c.B('1040.7_checkbox') else None,
  _QC + 'line 3: Are you filing Schedule D? No: enter the amount from Form 1040 or 1040-SR, line 7')
T(ALL, QD, '4', 'sum', SUM('2', '3'), _QC + 'line 4: Add lines 2 and 3')
T(ALL, QD, '5', 'difference', DIFF('1', '4', floor=True), _QC + 'line 5: Subtract line 4 from line 1. If zero or less, enter -0-')
for _y in YEARS:
    T((_y,), QD, '6', 'amount', BYSTATUS(QD_0[_y]),
      _QC + f'line 6 ({_y}): ${QD_0[_y]["Single"]:,} if single or married filing separately, ${QD_0[_y]["*"]:,} if married filing jointly or '
      f'qualifying widow(er)/surviving spouse, ${QD_0[_y]["HeadOfHousehold"]:,} if head of household')
    T((_y,), QD, '13', 'amount', BYSTATUS(QD_15[_y]),
      _QC + f'line 13 ({_y}): ${QD_15[_y]["Single"]:,} if single, ${QD_15[_y]["MarriedFilingSeparately"]:,} if married filing separately, '
      f'${QD_15[_y]["*"]:,} if married filing jointly or qualifying widow(er)/surviving spouse, ${QD_15[_y]["HeadOfHousehold"]:,} if head of household')
T(ALL, QD, '7', 'smaller', MIN('1', '6'), _QC + 'line 7: Enter the smaller of line 1 or line 6')
T(ALL, QD, '8', 'smaller', MIN('5', '7'), _QC + 'line 8: Enter the smaller of line 5 or line 7')
T(ALL, QD, '9', 'difference', DIFF('7', '8'), _QC + 'line 9: Subtract line 8 from line 7. This amount is taxed at 0%')
T(ALL, QD, '10', 'smaller', MIN('1', '4'), _QC + 'line 10: Enter the smaller of line 1 or line 4')
T(ALL, QD, '11', 'carry', CARRY('9'), _QC + 'line 11: Enter the amount from line 9')
T(ALL, QD, '12', 'difference', DIFF('10', '11'), _QC + 'line 12: Subtract line 11 from line 10')
T(ALL, QD, '14', 'smaller', MIN('1', '13'), _QC + 'line 14: Enter the smaller of line 1 or line 13')
T(ALL, QD, '15', 'sum', SUM('5', '9'), _QC + 'line 15: Add lines 5 and 9')
T(ALL, QD, '16', 'difference', DIFF('14', '15', floor=True), _QC + 'line 16: Subtract line 15 from line 14. If zero or less, enter -0-')
T(ALL, QD, '17', 'smaller', MIN('12', '16'), _QC + 'line 17: Enter the smaller of line 12 or line 16')
T(ALL, QD, '18', 'product', MUL('17', 0.15), _QC + 'line 18: Multiply line 17 by 15% (0.15)')
T(ALL, QD, '19', 'sum', SUM('9', '17'), _QC + 'line 19: Add lines 9 and 17')
T(ALL, QD, '20', 'difference', DIFF('10', '19'), _QC + 'line 20: Subtract line 19 from line 10')
T(ALL, QD, '21', 'product', MUL('20', 0.20), _QC + 'line 21: Multiply line 20 by 20% (0.20)')
T(ALL, QD, '22', 'tax-table', TAX_ON('5'), tol=0.0051, cite=
  _QC + 'line 22: Figure the tax on the amount on line 5 (Tax Table if less than $100,000, else Tax Computation Worksheet)')
T(ALL, QD, '23', 'sum', SUM('18', '21', '22'), _QC + 'line 23: Add lines 18, 21, and 22')
T(ALL, QD, '24', 'tax-table', TAX_ON('1'), tol=0.0051, cite=
  _QC + 'line 24: Figure the tax on the amount on line 1 (Tax Table if less than $100,000, else Tax Computation Worksheet)')
T(ALL, QD, '25', 'smaller', MIN('23', '24'), _QC + 'line 25: Tax on all taxable income. Enter the smaller of line 23 or line 24')

# ---------------------------------------------------------------------------------------------------------------
# Schedule 1
T(ALL, '1040_s1', '10', 'combine', SUM('1', '2a', '3', '4', '5', '6', '7', '9'),
  'Schedule 1 line 10: Combine lines 1 through 7 and 9. Enter here and on Form 1040, line 8')
T(ALL, '1040_s1', '13', 'carry', lambda c: sum(c.each('8889', '13')) if c.instances('8889') else None,
  'Form 8889 line 13: "HSA deduction. Enter the smaller of line 2 or line 12 here and on Schedule 1 (Form 1040), Part II, line 13" '
  '(joint filers with two Forms 8889 combine the two line 13 amounts)')
T(ALL, '1040_s1', '18', 'carry', lambda c: sum(c.each('1099-int', 'box_2')),
  'Schedule 1 line 18 instructions: Penalty on early withdrawal of savings, Form 1099-INT box 2')
T(ALL, '1040_s1', '26', 'sum', SUM('11', '12', '13', '14', '15', '16', '17', '18', '19a', '20', '21', '22', '23', '25'),
  'Schedule 1 line 26: Add lines 11 through 23 and 25. Enter here and on Form 1040, line 10')

# Schedule 3
T((2021, 2022), '1040_s3', '8', 'sum', SUM('1', '2', '3', '4', '5', '7'),
  'Schedule 3 (2021/2022) line 8: Add lines 1 through 5 and 7. Enter here and on Form 1040, line 20')
T(Y23, '1040_s3', '8', 'sum', SUM('1', '2', '3', '4', '5a', '5b', '7'),
  'Schedule 3 (2023) line 8: Add lines 1 through 4, 5a, 5b, and 7. Enter here and on Form 1040, line 20')


def _s3_1(c):
    tot = sum(c.each('1099-div', 'box_7')) + sum(c.each('1099-int', 'box_6'))
    st = c.status()
    if not st:
        raise Skip('filing status')
    if tot > (600.0 if st == 'MarriedFilingJointly' else 300.0):
        return None      # Form 1116 required
    return tot


T(ALL, '1040_s3', '1', 'carry', _s3_1,
  'Schedule 3 line 1 instructions (election to claim the foreign tax credit without Form 1116): total foreign taxes of Forms 1099-DIV box 7 '
  'and 1099-INT box 6, not more than $300 ($600 if married filing jointly)')

# Schedule A
T(ALL, '1040_sa', '2', 'carry', CARRY('1040.11'), 'Schedule A line 2: Enter amount from Form 1040 or 1040-SR, line 11')
T(ALL, '1040_sa', '3', 'product', MUL('2', 0.075), 'Schedule A line 3: Multiply line 2 by 7.5% (0.075)')
T(ALL, '1040_sa', '4', 'difference', DIFF('1', '3', floor=True),
  'Schedule A line 4: Subtract line 3 from line 1. If line 3 is more than line 1, enter -0-')
T(ALL, '1040_sa', '5d', 'sum', SUM('5a', '5b', '5c'), 'Schedule A line 5d: Add lines 5a through 5c')
T(ALL, '1040_sa', '5e', 'smaller',
  lambda c: min(c.L('5d'), BYSTATUS({'MarriedFilingSeparately': 5000.0, '*': 10000.0})(c)),
  'Schedule A line 5e: Enter the smaller of line 5d or $10,000 ($5,000 if married filing separately)')
T(ALL, '1040_sa', '7', 'sum', SUM('5e', '6'), 'Schedule A line 7: Add lines 5e and 6')
T(Y21, '1040_sa', '8e', 'sum', SUM('8a', '8b', '8c', '8d'), 'Schedule A (2021) line 8e: Add lines 8a through 8d')
T(Y2223, '1040_sa', '8e', 'sum', SUM('8a', '8b', '8c'), 'Schedule A (2022/2023) line 8e: Add lines 8a through 8c')
T(ALL, '1040_sa', '10', 'sum', SUM('8e', '9'), 'Schedule A line 10: Add lines 8e and 9')
T(ALL, '1040_sa', '14', 'sum', SUM('11', '12', '13'), 'Schedule A line 14: Add lines 11 through 13')
T(ALL, '1040_sa', '17', 'sum', SUM('4', '7', '10', '14', '15', '16'),
  'Schedule A line 17: Add the amounts in the far right column for lines 4 through 16 (lines 4, 7, 10, 14, 15, 16)')


def _sa_5a(c):
    if c.B('5a_checkbox'):
        return None
    return _w2(c, 'box_17') + _w2(c, 'box_19')


T(ALL, '1040_sa', '5a', 'includes', _sa_5a,
  'Schedule A line 5a instructions: state and local income taxes withheld from your salary (Form(s) W-2 boxes 17 and 19) are included', cmp='ge')


def _sa_8a(c):
    if any(x > 750000 for x in c.each('1098', 'box_2')):
        return None
    c.ops[:] = []
    return sum(c.each('1098', 'box_1')) + sum(c.each('1098', 'box_6'))


T(ALL, '1040_sa', '8a', 'carry', _sa_8a,
  'Schedule A line 8a: Home mortgage interest and points reported to you on Form 1098 (boxes 1 and 6), when not limited')

# Schedule B
_SB_ROWS = 14
T(ALL, '1040_sb', '2', 'sum', lambda c: sum(c.L(f'1_amount_{i}') for i in range(_SB_ROWS)), 'Schedule B line 2: Add the amounts on line 1')
T(ALL, '1040_sb', '4', 'difference', DIFF('2', '3'), 'Schedule B line 4: Subtract line 3 from line 2')
T(ALL, '1040_sb', '6', 'sum', lambda c: sum(c.L(f'5_amount_{i}') for i in range(_SB_ROWS)), 'Schedule B line 6: Add the amounts on line 5')


def _sb_2_carry(c):
    n = len(c.instances('1099-int'))
    if n > _SB_ROWS:
        return None
    for b in ('box_10', 'box_11', 'box_12', 'box_13'):
        if any(c.each('1099-int', b)):
            return None
    c.ops[:] = []
    return sum(c.each('1099-int', 'box_1')) + sum(c.each('1099-int', 'box_3'))


T(ALL, '1040_sb', '2', 'carry', _sb_2_carry,
  'Schedule B line 1 instructions: list every payer and the taxable interest shown on Forms 1099-INT (box 1 and box 3)')
T(ALL, '1040_sb', '6', 'carry', lambda c: sum(c.each('1099-div', 'box_1a')) if len(c.instances('1099-div')) <= _SB_ROWS else None,
  'Schedule B line 5 instructions: list every payer and the ordinary dividends shown on Forms 1099-DIV box 1a')

# ---------------------------------------------------------------------------------------------------------------
# Schedule 8812
S8 = '1040_s8812'
T(ALL, S8, '1', 'carry', CARRY('1040.11'), 'Schedule 8812 line 1: Enter the amount from line 11 of your Form 1040, 1040-SR, or 1040-NR')
T(ALL, S8, '2d', 'sum', SUM('2a', '2b', '2c'), 'Schedule 8812 line 2d: Add lines 2a through 2c')
T(ALL, S8, '3', 'sum', SUM('1', '2d'), 'Schedule 8812 line 3: Add lines 1 and 2d')
T(ALL, S8, '7', 'product', MUL('6', 500.0), 'Schedule 8812 line 7: Multiply line 6 by $500')
T(ALL, S8, '8', 'sum', SUM('5', '7'), 'Schedule 8812 line 8: Add lines 5 and 7')
T(ALL, S8, '9', 'amount', BYSTATUS({'MarriedFilingJointly': 400000.0, '*': 200000.0}),
  'Schedule 8812 line 9: Married filing jointly - $400,000; all other filing statuses - $200,000')
T(ALL, S8, '10', 'difference', lambda c: _ceil_multiple(max(0.0, c.L('3') - c.L('9')), 1000.0),
  'Schedule 8812 line 10: Subtract line 9 from line 3. If zero or less, enter -0-. If more than zero and not a multiple of $1,000, '
  'enter the next multiple of $1,000')
T(ALL, S8, '11', 'product', MUL('10', 0.05), 'Schedule 8812 line 11: Multiply line 10 by 5% (0.05)')
T(ALL, S8, 'clwkst_a_1', 'carry', CARRY('1040.18'), 'Credit Limit Worksheet A line 1: Enter the amount from line 18 of your Form 1040')


def _clw_a_2(c):
    y = c.year
    if y < 2023 and c.L('1040_s3.5') != 0:
        return None      # only Form 5695 line 30 (part of Schedule 3 line 5) belongs here
    refs = ['1', '2', '3', '4', '6d', '6e', '6f', '6l']
    if y == 2023:
        refs += ['5b', '6m']
    return sum(c.L('1040_s3.' + r) for r in refs)


T(ALL, S8, 'clwkst_a_2', 'sum', _clw_a_2,
  'Credit Limit Worksheet A line 2: add the amounts of Schedule 3 lines 1, 2, 3, 4, (Form 5695 line 30 / 2023: line 5b), 6d, 6e, 6f, 6l (2023: 6m)')
# Reading fixed by the lead: the worksheet says "Subtract line 2 from line 1" and assumes the line-2 credits never exceed the
# tax (the Schedule 3 line 1 instructions limit the foreign tax credit to the tax).  habutax does not apply that limit on
# Schedule 3 (doing so would need Form 1040 line 16 there, which the repository's own Schedule 3 tests do not supply), so the
# repaired 2022/2023 code clamps this line at zero instead; for 2021 (line 2 taken from a yes/no answer) either reading agrees.
T(ALL, S8, 'clwkst_a_3', 'difference', lambda c: (lambda d: d if d >= 0 or c.year == 2021 else 0.0)(c.L('clwkst_a_1') - c.L('clwkst_a_2')),
  'Credit Limit Worksheet A line 3: Subtract line 2 from line 1 (not less than zero: the credits on line 2 are limited to the tax)')
T(ALL, S8, 'clwkst_a_5', 'difference', DIFF('clwkst_a_3', 'clwkst_a_4'),
  'Credit Limit Worksheet A line 5: Subtract line 4 from line 3. Enter here and on Schedule 8812, line 13 (2021: line 14c / 15a)')
# 2022 / 2023 layout
T(Y2223, S8, '5', 'product', MUL('4', 2000.0), 'Schedule 8812 (2022/2023) line 5: Multiply line 4 by $2,000')
T(Y2223, S8, '12', 'difference', lambda c: (c.L('8') - c.L('11')) if c.L('8') > c.L('11') else None,
  'Schedule 8812 (2022/2023) line 12: Is the amount on line 8 more than the amount on line 11? No: enter -0- (on lines 14 and 27). '
  'Yes: subtract line 11 from line 8')
T(Y2223, S8, '13', 'carry', CARRY('clwkst_a_5'), 'Schedule 8812 (2022/2023) line 13: Enter the amount from Credit Limit Worksheet A')
T(Y2223, S8, '14', 'smaller', MIN('12', '13'), 'Schedule 8812 (2022/2023) line 14: Enter the smaller of line 12 or line 13')
T(Y2223, S8, '16a', 'difference', DIFF('12', '14'), 'Schedule 8812 (2022/2023) line 16a: Subtract line 14 from line 12')
T(Y22, S8, '16b', 'product', MUL('4', 1500.0),
  'Schedule 8812 (2022) line 16b: Number of qualifying children under 17 with the required social security number x $1,500')
T(Y23, S8, '16b', 'product', MUL('4', 1600.0),
  'Schedule 8812 (2023) line 16b: Number of qualifying children under 17 with the required social security number x $1,600')
T(Y2223, S8, '17', 'smaller', MIN('16a', '16b'), 'Schedule 8812 (2022/2023) line 17: Enter the smaller of line 16a or line 16b')
T(Y2223, S8, '27', 'limit', lambda c: c.L('17') if c.has('17') else (0.0 if not c.partial else None),
  'Schedule 8812 (2022/2023) line 27: additional child tax credit, the smaller of line 17 and line 20 / line 26', cmp='le')
# 2021 layout
T(Y21, S8, '4c', 'difference', DIFF('4a', '4b'), 'Schedule 8812 (2021) line 4c: Subtract line 4b from line 4a', places=0)
T(Y21, S8, '5', 'carry', lambda c: c.L('5_ws_12') if c.L('4a') > 0 else 0.0,
  'Schedule 8812 (2021) line 5: If line 4a is more than zero, enter the amount from the Line 5 Worksheet; otherwise, enter -0-')
T(Y21, S8, '12', 'difference', DIFF('8', '11', floor=True), 'Schedule 8812 (2021) line 12: Subtract line 11 from line 8. If zero or less, enter -0-')
T(Y21, S8, '14a', 'smaller', MIN('7', '12'), 'Schedule 8812 (2021) line 14a: Enter the smaller of line 7 or line 12')
T(Y21, S8, '14b', 'difference', DIFF('12', '14a'), 'Schedule 8812 (2021) line 14b: Subtract line 14a from line 12')
T(Y21, S8, '14c', 'carry', lambda c: c.L('clwkst_a_5') if c.L('14a') != 0 else 0.0,
  'Schedule 8812 (2021) line 14c: If line 14a is zero, enter -0-; otherwise, enter the amount from the Credit Limit Worksheet A')
T(Y21, S8, '14d', 'smaller', MIN('14a', '14c'), 'Schedule 8812 (2021) line 14d: Enter the smaller of line 14a or line 14c')
T(Y21, S8, '14e', 'sum', SUM('14b', '14d'), 'Schedule 8812 (2021) line 14e: Add lines 14b and 14d')
T(Y21, S8, '14g', 'difference', DIFF('14e', '14f', floor=True), 'Schedule 8812 (2021) line 14g: Subtract line 14f from line 14e. If zero or less, enter -0-')
T(Y21, S8, '14h', 'smaller', MIN('14d', '14g'), 'Schedule 8812 (2021) line 14h: Enter the smaller of line 14d or line 14g')
T(Y21, S8, '14i', 'difference', DIFF('14g', '14h'), 'Schedule 8812 (2021) line 14i: Subtract line 14h from line 14g')
T(Y21, S8, '28a', 'carry', CARRY('14f'), 'Schedule 8812 (2021) line 28a: Enter the amount from line 14f or line 15e, whichever applies')
T(Y21, S8, '28b', 'carry', CARRY('14e'), 'Schedule 8812 (2021) line 28b: Enter the amount from line 14e or line 15d, whichever applies')
T(Y21, S8, '29', 'difference', DIFF('28a', '28b'), 'Schedule 8812 (2021) line 29: Subtract line 28b from line 28a')
T(Y21, S8, '31', 'smaller', MIN('4a', '30'), 'Schedule 8812 (2021) line 31: Enter the smaller of line 4a or line 30', places=0)
T(Y21, S8, '32', 'difference', DIFF('30', '31'), 'Schedule 8812 (2021) line 32: Subtract line 31 from line 30', places=0)
T(Y21, S8, '33', 'amount', BYSTATUS({'MarriedFilingJointly': 60000.0, 'QualifyingWidowWidower': 60000.0, 'HeadOfHousehold': 50000.0, '*': 40000.0}),
  'Schedule 8812 (2021) line 33: Married filing jointly or Qualifying widow(er) - $60,000; Head of household - $50,000; all other - $40,000')
T(Y21, S8, '34', 'difference', DIFF('3', '33', floor=True), 'Schedule 8812 (2021) line 34: Subtract line 33 from line 3. If zero or less, enter -0-')
T(Y21, S8, '35', 'carry', CARRY('33'), 'Schedule 8812 (2021) line 35: Enter the amount from line 33')
T(Y21, S8, '36', 'ratio', lambda c: (min(1.0, c.L('34') / c.L('35')) if c.L('35') else None),
  'Schedule 8812 (2021) line 36: Divide line 34 by line 35. Enter the result as a decimal (rounded to at least three places). '
  'If the result is 1.000 or more, enter 1.000', tol=0.0005)
T(Y21, S8, '37', 'product', MUL('32', 2000.0), 'Schedule 8812 (2021) line 37: Multiply line 32 by $2,000')
T(Y21, S8, '38', 'product', lambda c: c.L('37') * c.L('36'), 'Schedule 8812 (2021) line 38: Multiply line 37 by line 36')
T(Y21, S8, '39', 'difference', DIFF('37', '38'), 'Schedule 8812 (2021) line 39: Subtract line 38 from line 37')
T(Y21, S8, '40', 'difference', DIFF('29', '39', floor=True), 'Schedule 8812 (2021) line 40: Subtract line 39 from line 29. If zero or less, enter -0-')
# 2021 Line 5 Worksheet (Schedule 8812 instructions)
_W5 = 'Line 5 Worksheet (2021 Schedule 8812 instructions) '
T(Y21, S8, '5_ws_1', 'product', MUL('4b', 3600.0), _W5 + 'line 1: Multiply Schedule 8812, line 4b, by $3,600')
T(Y21, S8, '5_ws_2', 'product', MUL('4c', 3000.0), _W5 + 'line 2: Multiply Schedule 8812, line 4c, by $3,000')
T(Y21, S8, '5_ws_3', 'sum', SUM('5_ws_1', '5_ws_2'), _W5 + 'line 3: Add line 1 and line 2')
T(Y21, S8, '5_ws_4', 'product', MUL('4a', 2000.0), _W5 + 'line 4: Multiply Schedule 8812, line 4a, by $2,000')
T(Y21, S8, '5_ws_5', 'difference', DIFF('5_ws_3', '5_ws_4'), _W5 + 'line 5: Subtract line 4 from line 3')
T(Y21, S8, '5_ws_6', 'amount', BYSTATUS({'MarriedFilingJointly': 12500.0, 'QualifyingWidowWidower': 2500.0, 'HeadOfHousehold': 4375.0, '*': 6250.0}),
  _W5 + 'line 6: Married filing jointly - $12,500; Qualifying widow(er) - $2,500; Head of household - $4,375; all other - $6,250')
T(Y21, S8, '5_ws_7', 'smaller', MIN('5_ws_5', '5_ws_6'), _W5 + 'line 7: Enter the smaller of line 5 or line 6')
T(Y21, S8, '5_ws_8', 'amount', BYSTATUS({'MarriedFilingJointly': 150000.0, 'QualifyingWidowWidower': 150000.0, 'HeadOfHousehold': 112500.0, '*': 75000.0}),
  _W5 + 'line 8: Married filing jointly or Qualifying widow(er) - $150,000; Head of household - $112,500; all other - $75,000')
T(Y21, S8, '5_ws_9', 'difference', lambda c: _ceil_multiple(max(0.0, c.L('3') - c.L('5_ws_8')), 1000.0),
  _W5 + 'line 9: Subtract line 8 from Schedule 8812, line 3. If zero or less, enter -0-. If more than zero and not a multiple of $1,000, '
  'enter the next multiple of $1,000')
T(Y21, S8, '5_ws_10', 'product', MUL('5_ws_9', 0.05), _W5 + 'line 10: Multiply line 9 by 5% (0.05)')
T(Y21, S8, '5_ws_11', 'smaller', MIN('5_ws_7', '5_ws_10'), _W5 + 'line 11: Enter the smaller of line 7 or line 10')
T(Y21, S8, '5_ws_12', 'difference', DIFF('5_ws_3', '5_ws_11'), _W5 + 'line 12: Subtract line 11 from line 3. Enter this amount on Schedule 8812, line 5')

# 2021 Recovery Rebate Credit Worksheet (only the lines transcribed with confidence)
RR = '1040_recovery_rebate_credit_wkst'
T(Y21, RR, '8', 'sum', SUM('6', '7'), 'Recovery Rebate Credit Worksheet (2021 Form 1040 instructions, line 30) line 8: Add lines 6 and 7')
T(Y21, RR, '14', 'difference', DIFF('12', '13', floor=True),
  'Recovery Rebate Credit Worksheet (2021) line 14: Subtract line 13 from line 12. If zero or less, enter -0-')
T(Y21, RR, 'credit', 'carry', lambda c: c.L('14') if c.has('14') else None,
  'Recovery Rebate Credit Worksheet (2021) line 14: "Enter the result here and on line 30 of Form 1040"')

# Worksheet To See if You Should Fill in Form 6251 (Schedule 2 line 1 instructions); only the plain arithmetic lines
A6 = '1040_s2_need_6251'
_A6 = 'Worksheet To See if You Should Fill in Form 6251 (Schedule 2 instructions) '
T(ALL, A6, '5', 'difference', DIFF('3', '4'), _A6 + 'line 5: Subtract line 4 from line 3')
T(ALL, A6, '7', 'difference', DIFF('5', '6'), _A6 + 'line 7: Is line 5 more than line 6? Yes: subtract line 6 from line 5')
T(ALL, A6, '11', 'sum', SUM('7', '10'), _A6 + 'line 11: Add lines 7 and 10')
T(ALL, A6, '12', 'product', MUL('11', 0.26), _A6 + 'line 12: Multiply line 11 by 26% (0.26)')

# ---------------------------------------------------------------------------------------------------------------
# Form 8889 (one per person: sections 8889:you / 8889:spouse)
T(ALL, '8889', '5', 'difference', DIFF('3', '4', floor=True), 'Form 8889 line 5: Subtract line 4 from line 3. If zero or less, enter -0-')
T(ALL, '8889', '8', 'sum', SUM('6', '7'), 'Form 8889 line 8: Add lines 6 and 7')
T(ALL, '8889', '11', 'sum', SUM('9', '10'), 'Form 8889 line 11: Add lines 9 and 10')
T(ALL, '8889', '12', 'difference', DIFF('8', '11', floor=True), 'Form 8889 line 12: Subtract line 11 from line 8. If zero or less, enter -0-')
T(ALL, '8889', '13', 'smaller', MIN('2', '12'), 'Form 8889 line 13: HSA deduction. Enter the smaller of line 2 or line 12')
T(ALL, '8889', '6', 'limit', CARRY('5'),
  'Form 8889 line 6: Enter the amount from line 5 (spouses with separate HSAs and family coverage divide it: never more than line 5)', cmp='le')

# Form 8959
_MEDI = {'MarriedFilingJointly': 250000.0, 'MarriedFilingSeparately': 125000.0, '*': 200000.0}
T(ALL, '8959', '1', 'carry', lambda c: _w2(c, 'box_5'), 'Form 8959 line 1: Medicare wages and tips from Form W-2, box 5 (total of all Forms W-2)')
T(ALL, '8959', '4', 'sum', SUM('1', '2', '3'), 'Form 8959 line 4: Add lines 1 through 3')
for _l in ('5', '9', '15'):
    T(ALL, '8959', _l, 'amount', BYSTATUS(_MEDI),
      f'Form 8959 line {_l}: Married filing jointly $250,000; Married filing separately $125,000; Single, Head of household, or Qualifying '
      'widow(er)/surviving spouse $200,000')
T(ALL, '8959', '6', 'difference', DIFF('4', '5', floor=True), 'Form 8959 line 6: Subtract line 5 from line 4. If zero or less, enter -0-')
T(ALL, '8959', '7', 'product', MUL('6', 0.009), 'Form 8959 line 7: Multiply line 6 by 0.9% (0.009)')
T(ALL, '8959', '10', 'carry', CARRY('4'), 'Form 8959 line 10: Enter the amount from line 4')
T(ALL, '8959', '11', 'difference', DIFF('9', '10', floor=True), 'Form 8959 line 11: Subtract line 10 from line 9. If zero or less, enter -0-')
T(ALL, '8959', '12', 'difference', DIFF('8', '11', floor=True), 'Form 8959 line 12: Subtract line 11 from line 8. If zero or less, enter -0-')
T(ALL, '8959', '13', 'product', MUL('12', 0.009), 'Form 8959 line 13: Multiply line 12 by 0.9% (0.009)')
T(ALL, '8959', '16', 'difference', DIFF('14', '15', floor=True), 'Form 8959 line 16: Subtract line 15 from line 14. If zero or less, enter -0-')
T(ALL, '8959', '17', 'product', MUL('16', 0.009), 'Form 8959 line 17: Multiply line 16 by 0.9% (0.009)')
T(ALL, '8959', '18', 'sum', SUM('7', '13', '17'), 'Form 8959 line 18: Add lines 7, 13, and 17')
T(ALL, '8959', '19', 'carry', lambda c: _w2(c, 'box_6'), 'Form 8959 line 19: Medicare tax withheld from Form W-2, box 6 (total of all Forms W-2)')
T(ALL, '8959', '20', 'carry', CARRY('1'), 'Form 8959 line 20: Enter the amount from line 1')
T(ALL, '8959', '21', 'product', MUL('20', 0.0145), 'Form 8959 line 21: Multiply line 20 by 1.45% (0.0145)')
T(ALL, '8959', '22', 'difference', DIFF('19', '21', floor=True), 'Form 8959 line 22: Subtract line 21 from line 19. If zero or less, enter -0-')
T(ALL, '8959', '24', 'sum', SUM('22', '23'), 'Form 8959 line 24: Add lines 22 and 23')

# Form 8995
T(ALL, '8995', '5', 'product', MUL('4', 0.20), 'Form 8995 line 5: Multiply line 4 by 20% (0.20)')
T(ALL, '8995', '6', 'carry', lambda c: sum(c.each('1099-div', 'box_5')),
  'Form 8995 line 6 instructions: qualified REIT dividends include the section 199A dividends of Form 1099-DIV box 5 (PTP income aside)')
T(ALL, '8995', '9', 'product', MUL('8', 0.20), 'Form 8995 line 9: Multiply line 8 by 20% (0.20)')
T(ALL, '8995', '10', 'sum', SUM('5', '9'), 'Form 8995 line 10: Add lines 5 and 9')


def _8995_11(c):
    x = c.L('1040.11') - c.L('1040.12c' if c.year == 2021 else '1040.12')
    return x if x >= 0 else None


T(ALL, '8995', '11', 'difference', _8995_11,
  'Form 8995 line 11 instructions: taxable income before the QBI deduction = Form 1040 line 11 minus line 12 (2021: line 12c)')
T(ALL, '8995', '12', 'sum', lambda c: c.L('1040.3a') + max(0.0, c.L('1040.7')),
  'Form 8995 line 12 instructions: Form 1040 line 3a (qualified dividends) plus the net capital gain (Form 1040 line 7 when Schedule D '
  'is not required)')
T(ALL, '8995', '13', 'difference', DIFF('11', '12', floor=True), 'Form 8995 line 13: Subtract line 12 from line 11. If zero or less, enter -0-')
T(ALL, '8995', '14', 'product', MUL('13', 0.20), 'Form 8995 line 14: Multiply line 13 by 20% (0.20)')
T(ALL, '8995', '15', 'smaller', MIN('10', '14'), 'Form 8995 line 15: Enter the smaller of line 10 or line 14')

# Form 8606 Part I / II
T(ALL, '8606', '3', 'sum', SUM('1', '2'), 'Form 8606 line 3: Add lines 1 and 2')
T(ALL, '8606', '5', 'difference', DIFF('3', '4'), 'Form 8606 line 5: Subtract line 4 from line 3')
T(ALL, '8606', '9', 'sum', SUM('6', '7', '8'), 'Form 8606 line 9: Add lines 6, 7, and 8')
T(ALL, '8606', '10', 'ratio', lambda c: (min(1.0, c.L('5') / c.L('9')) if c.L('9') else None),
  'Form 8606 line 10: Divide line 5 by line 9. Enter the result as a decimal rounded to at least 3 places. If 1.000 or more, enter 1.000',
  places=5, tol=0.0005)
T(ALL, '8606', '11', 'product', lambda c: c.L('8') * c.L('10'), 'Form 8606 line 11: Multiply line 8 by line 10')
T(ALL, '8606', '12', 'product', lambda c: c.L('7') * c.L('10'), 'Form 8606 line 12: Multiply line 7 by line 10')
T(ALL, '8606', '13', 'sum', SUM('11', '12'), 'Form 8606 line 13: Add lines 11 and 12')
T(ALL, '8606', '14', 'difference', DIFF('3', '13'), 'Form 8606 line 14: Subtract line 13 from line 3')
T(ALL, '8606', '15a', 'difference', DIFF('7', '12'), 'Form 8606 line 15a: Subtract line 12 from line 7')
T(ALL, '8606', '15c', 'difference', DIFF('15a', '15b'), 'Form 8606 line 15c: Taxable amount. Subtract line 15b from line 15a')
T(ALL, '8606', '16', 'carry', lambda c: c.L('8') if c.has('8') else None,
  'Form 8606 line 16: If you completed Part I, enter the amount from line 8')
T(ALL, '8606', '17', 'carry', lambda c: c.L('11') if c.has('11') else None,
  'Form 8606 line 17: If you completed Part I, enter the amount from line 11')
T(ALL, '8606', '18', 'difference', DIFF('16', '17'), 'Form 8606 line 18: Taxable amount. Subtract line 17 from line 16')

# ===============================================================================================================
# North Carolina (whole-dollar lines).  D-400, Schedule S, Schedule A, D-401 worksheets.
NC, SS, NSA = 'nc_d-400', 'nc_d-400_ss', 'nc_d-400_sa'
CW, UW = 'nc_d-400_child_deduction_wkst', 'nc_d-400_consumer_use_tax_wkst'
NC_RATE = {2021: 0.0525, 2022: 0.0499, 2023: 0.0475}
SS_ADD_TOTAL = {2021: '15', 2022: '16', 2023: '16'}
SS_DED_TOTAL = {2021: '38', 2022: '41', 2023: '41'}


def N(years, form, line, kind, fn, cite, **kw):
    kw.setdefault('places', 0)
    T(years, form, line, kind, fn, cite, **kw)


N(ALL, NC, '6', 'carry', CARRY('1040.11'), 'D-400 line 6: Federal Adjusted Gross Income (Form 1040 line 11), whole dollars')


def _nc_from_ss(total_by_year, gate):
    def f(c):
        ref = f'{SS}.{total_by_year[c.year]}'
        g = c.yes(f'{NC}.{gate}')
        if g is True and not c.partial:
            return c.Lreq(ref)
        if g is False:
            return 0.0
        return c.L(ref)
    return f


N(ALL, NC, '7', 'carry', _nc_from_ss(SS_ADD_TOTAL, 'additions_to_agi'),
  'D-400 line 7: Additions to Federal Adjusted Gross Income (From Form D-400 Schedule S, Part A, Line 15 [2021] / Line 16 [2022, 2023], '
  'the total additions line)')
N(ALL, NC, '8', 'sum', SUM('6', '7'), 'D-400 line 8: Add Lines 6 and 7')
N(ALL, NC, '9', 'carry', _nc_from_ss(SS_DED_TOTAL, 'deductions_from_agi'),
  'D-400 line 9: Deductions From Federal Adjusted Gross Income (From Form D-400 Schedule S, Part B, Line 38 [2021] / Line 41 [2022, 2023])')
N(ALL, NC, '10a', 'carry', CARRY(CW + '.3'), 'D-400 line 10a: Number of qualifying children (child deduction worksheet line 3)')
N(ALL, NC, '10b', 'carry', CARRY(CW + '.5'), 'D-400 line 10b: Child Deduction (child deduction worksheet line 5)')
N(ALL, NC, '11', 'carry', lambda c: c.L(NSA + '.10') if c.B('11_itemizing') else c.L(NSA + '.nc_standard_deduction'),
  'D-400 line 11: N.C. Standard Deduction OR N.C. Itemized Deductions (D-400 Schedule A line 10), as the filled-in circle says')
N(ALL, NC, '12a', 'sum', SUM('9', '10b', '11'), 'D-400 line 12a: Add Lines 9, 10b, and 11')
N(ALL, NC, '12b', 'difference', DIFF('8', '12a'), 'D-400 line 12b: Subtract Line 12a from Line 8')
N(ALL, NC, '14', 'carry', lambda c: c.L('12b') if c.L('13') == 0 else None,
  'D-400 line 14: North Carolina Taxable Income; full-year residents enter the amount from Line 12b')
for _y in YEARS:
    N((_y,), NC, '15', 'product', (lambda r: lambda c: max(0.0, c.L('14') * r))(NC_RATE[_y]),
      f'D-400 ({_y}) line 15: North Carolina Income Tax: multiply Line 14 by {NC_RATE[_y] * 100:.2f}% ({NC_RATE[_y]}); if zero or less, enter a zero')
N(ALL, NC, '17', 'difference', DIFF('15', '16'), 'D-400 line 17: Subtract Line 16 from Line 15')
N(ALL, NC, '18', 'carry', lambda c: 0.0 if c.B('no_consumer_use_tax') else c.L(UW + '.consumer_use_tax'),
  'D-400 line 18: Consumer Use Tax (from the Consumer Use Tax Worksheet of the D-401 instructions)')
N(ALL, NC, '19', 'sum', SUM('17', '18'), 'D-400 line 19: Add Lines 17 and 18')


def _nc_withheld(owner):
    def f(c):
        return sum(c.each('w-2', 'box_17', where=lambda kv: kv.get('box_15') == 'NC' and kv.get('belongs_to') == owner))
    return f


N(ALL, NC, '20a', 'includes', _nc_withheld('taxpayer'), 'D-400 line 20a: Your North Carolina income tax withheld (Form(s) W-2 box 17, state NC)', cmp='ge')
N(ALL, NC, '20b', 'includes', _nc_withheld('spouse'), "D-400 line 20b: Spouse's North Carolina income tax withheld (Form(s) W-2 box 17, state NC)", cmp='ge')
def _nc_withheld_all(c):
    """all North Carolina income tax withheld on the statements present in the solution, whoever they belong to"""
    tot = 0.0
    pairs = {'w-2': [('box_15', 'box_17')], '1099-g': [('box_10a_1', 'box_11_1'), ('box_10a_2', 'box_11_2')],
             '1099-int': [('box_15_1', 'box_17_1'), ('box_15_2', 'box_17_2')],
             '1099-div': [('box_14_1', 'box_16_1'), ('box_14_2', 'box_16_2')],
             '1099-r': [('box_14_1_state', 'box_14_1'), ('box_14_2_state', 'box_14_2')]}
    for form, cols in pairs.items():
        for sec in c.instances(form):
            kv = c.sol[sec]
            for st, amt in cols:
                if kv.get(st) == 'NC' and kv.get(amt) not in (None, ''):
                    tot += float(kv[amt])
    return tot


# every statement belongs to the taxpayer, the spouse or both, so lines 20a + 20b carry all the N.C. tax withheld on the
# statements of the return (W-2 box 17, 1099-G box 11, 1099-INT box 17, 1099-DIV box 16, 1099-R box 14, state NC)
N(ALL, NC, '20b', 'conservation', lambda c: _nc_withheld_all(c) - c.L('20a'),
  'D-400 lines 20a + 20b: North Carolina income tax withheld, from all Forms W-2 and 1099 showing N.C. tax withheld', tol=1.01)
N(ALL, NC, '23', 'sum', SUM('20a', '20b', '21a', '21b', '21c', '21d', '22'), 'D-400 line 23: Add Lines 20a through 22')
N(ALL, NC, '25', 'difference', DIFF('23', '24'), 'D-400 line 25: Subtract Line 24 from Line 23')
N(ALL, NC, '26a', 'difference', lambda c: (c.L('19') - c.L('25')) if c.L('19') > c.L('25') else 0.0,
  'D-400 line 26a: Tax Due - If Line 19 is more than Line 25, subtract Line 25 from Line 19')
N(ALL, NC, '26d', 'sum', SUM('26b', '26c'), 'D-400 line 26d: Add Lines 26b and 26c')
N(ALL, NC, '27', 'sum', SUM('26a', '26d', '26e'), 'D-400 line 27: Add Lines 26a, 26d, and 26e - Pay This Amount')
N(ALL, NC, '28', 'difference', lambda c: (c.L('25') - c.L('19')) if c.L('25') > c.L('19') else 0.0,
  'D-400 line 28: Overpayment - If Line 19 is less than Line 25, subtract Line 19 from Line 25')
N(ALL, NC, '33', 'sum', SUM('29', '30', '31', '32'), 'D-400 line 33: Add Lines 29 through 32')
N(ALL, NC, '34', 'difference', DIFF('28', '33'), 'D-400 line 34: Subtract Line 33 from Line 28 - Amount To Be Refunded')

# D-400 Schedule S
N(Y21, SS, '15', 'sum', lambda c: sum(c.L(str(i)) for i in range(1, 15)), 'D-400 Schedule S (2021) Part A line 15: Total additions - Add Lines 1 through 14')
N(Y2223, SS, '16', 'sum', lambda c: sum(c.L(str(i)) for i in range(1, 16)), 'D-400 Schedule S (2022/2023) Part A line 16: Total additions - Add Lines 1 through 15')
N(Y21, SS, '22f', 'sum', SUM('22a', '22b', '22c', '22d', '22e'), 'D-400 Schedule S (2021) line 22f: Total bonus depreciation - Add Lines 22a through 22e')
N(Y21, SS, '23f', 'sum', SUM('23a', '23b', '23c', '23d', '23e'), 'D-400 Schedule S (2021) line 23f: Total section 179 expense - Add Lines 23a through 23e')
N(Y2223, SS, '23f', 'sum', SUM('23a', '23b', '23c', '23d', '23e'), 'D-400 Schedule S (2022/2023) line 23f: Add Lines 23a through 23e')
N(Y2223, SS, '24f', 'sum', SUM('24a', '24b', '24c', '24d', '24e'), 'D-400 Schedule S (2022/2023) line 24f: Add Lines 24a through 24e')
N(Y21, SS, '38', 'sum', lambda c: sum(c.L(str(i)) for i in range(16, 22)) + c.L('22f') + c.L('23f') + sum(c.L(str(i)) for i in range(24, 38)),
  'D-400 Schedule S (2021) Part B line 38: Total deductions - Add Lines 16 through 21, 22f, 23f, and 24 through 37')
N(Y2223, SS, '41', 'sum', lambda c: sum(c.L(str(i)) for i in range(17, 23)) + c.L('23f') + c.L('24f') + sum(c.L(str(i)) for i in range(25, 41)),
  'D-400 Schedule S (2022/2023) Part B line 41: Total deductions - Add Lines 17 through 22, 23f, 24f, and 25 through 40')

# D-400 Schedule A
N(ALL, NSA, '3', 'sum', SUM('1', '2'), 'D-400 Schedule A line 3: Add Lines 1 and 2')
N(ALL, NSA, '4', 'amount', CONST(20000.0), 'D-400 Schedule A line 4: Mortgage interest and real estate tax limitation $20,000')
N(ALL, NSA, '5', 'smaller', MIN('3', '4'), 'D-400 Schedule A line 5: Enter the lesser of Line 3 or Line 4')
N(ALL, NSA, '7b', 'carry', CARRY(NC + '.6'), 'D-400 Schedule A line 7b: Enter amount from Form D-400, Line 6 (federal adjusted gross income)')
N(ALL, NSA, '7c', 'product', lambda c: (c.L('7b') * 0.075) if c.L('7b') >= 0 else None, 'D-400 Schedule A line 7c: Multiply Line 7b by 7.5% (0.075)')
N(ALL, NSA, '7d', 'difference', DIFF('7a', '7c', floor=True), 'D-400 Schedule A line 7d: Subtract Line 7c from Line 7a. If Line 7c is more than Line 7a, enter zero')
N(ALL, NSA, '10', 'sum', SUM('5', '6', '7d', '8', '9'), 'D-400 Schedule A line 10: Total N.C. itemized deductions - Add Lines 5, 6, 7d, 8, and 9')
NC_STD = {2021: {'MarriedFilingJointly': 21500.0, 'QualifyingWidowWidower': 21500.0, 'HeadOfHousehold': 16125.0, '*': 10750.0},
          2022: {'MarriedFilingJointly': 25500.0, 'QualifyingSurvivingSpouse': 25500.0, 'HeadOfHousehold': 19125.0, '*': 12750.0}}
NC_STD[2023] = NC_STD[2022]
for _y in YEARS:
    N((_y,), NSA, 'nc_standard_deduction', 'amount',
      (lambda t: lambda c: BYSTATUS(t)(c) if c.L('nc_standard_deduction') != 0 else None)(NC_STD[_y]),
      f'D-400 ({_y}) N.C. standard deduction: single / married filing separately ${NC_STD[_y]["*"]:,.0f}, married filing jointly / surviving spouse '
      f'${NC_STD[_y]["MarriedFilingJointly"]:,.0f}, head of household ${NC_STD[_y]["HeadOfHousehold"]:,.0f} (zero if not entitled to the federal one)')

# D-401 child deduction worksheet
_CHILD_STEP = {'MarriedFilingJointly': 20000.0, 'QualifyingWidowWidower': 20000.0, 'QualifyingSurvivingSpouse': 20000.0, 'HeadOfHousehold': 15000.0, '*': 10000.0}


def _child_amount(c):
    st = c.status()
    if not st:
        raise Skip('filing status')
    step = _CHILD_STEP.get(st, _CHILD_STEP['*'])
    agi = c.L('2')
    top = 2500.0 if c.year == 2021 else 3000.0
    # brackets: up to 2 steps -> top amount, then 500 less for every further step, zero beyond the last bracket
    k = 0
    bound = 2 * step
    while agi > bound + 1e-9:
        k += 1
        bound += step
    return max(0.0, top - 500.0 * k)


N(ALL, CW, '2', 'carry', CARRY(NC + '.6'), 'D-401 child deduction worksheet line 2: Enter the amount from Form D-400, Line 6')
N(ALL, CW, '4', 'amount', _child_amount,
  'D-401 child deduction table: per child $2,500 (2021) / $3,000 (2022+) up to AGI $40,000 MFJ-SS / $30,000 HoH / $20,000 single-MFS, $500 '
  'less for each further $20,000 / $15,000 / $10,000 of AGI, zero above $120,000 / $90,000 / $60,000 (2021) or $140,000 / $105,000 / $70,000 (2022+)')
N(ALL, CW, '5', 'product', lambda c: c.L('3') * c.L('4'), 'D-401 child deduction worksheet line 5: Multiply Line 3 by Line 4. Enter on Form D-400, Line 10b')

# D-401 consumer use tax worksheet
N((2021, 2023), UW, '4', 'difference', DIFF('2', '3'), 'D-401 Consumer Use Tax Worksheet line 4: Subtract Line 3 from Line 2')
N((2021, 2023), UW, '3', 'limit', CARRY('2'), 'D-401 Consumer Use Tax Worksheet line 3: tax paid to another state, not more than Line 2', cmp='le')
N(Y22, UW, '6', 'difference', lambda c: c.L('2') + c.L('4') - c.L('5'),
  'D-401 (2022) Consumer Use Tax Worksheet line 6: Add Lines 2 and 4 and subtract Line 5')
N(ALL, UW, 'consumer_use_tax', 'carry',
  lambda c: c.L('6' if c.year == 2022 else '4') if c.has('6' if c.year == 2022 else '4') else (c.L('estimate') if c.has('estimate') else None),
  'D-400 line 18 instructions: the worksheet result when records were kept, else the Use Tax Table estimate')


def _spouse_name(c):
    """the tokens the line may be made of: the spouse's name as the return knows it"""
    if not c.B('3') or c.inputs is None:
        return None
    toks = []
    for k in ('spouse_first_name', 'spouse_middle_initial', 'spouse_last_name'):
        toks += str(c.I('1040.' + k) or '').split()
        toks += c.S('1040.' + k).split()
    return sorted(set(t.upper() for t in toks))


T(ALL, NC, 'separate_spouse_name', 'name', _spouse_name,
  "D-400 filing status 3, Married Filing Separately: \"Enter your spouse's full name and Social Security Number\": the line is made of the "
  "spouse's first name, middle initial and last name as given in the return", cmp='text')

# ===============================================================================================================
# lines that are habutax bookkeeping, not lines of an official form (no instruction exists for them)
HELPER_LINES = {
    '1040': {'itemizing', 'schedule_1_additional_income', 'schedule_2_part_i_needed', 'need_schedule_3_part_i'},
    '1040_s8812': {'nonrefundable_ctc_or_odc', 'refundable_ctc_or_additional_ctc', 'additional_tax'},
    '8606': {'taxable_amount'},
    '8889': {'hsa_deduction'},
    'nc_d-400': {'refund'},
    'nc_d-400_sa': {'deduction'},
}


class Table(object):
    """rules of one year: by_form[form][line] = [Rule]; the first non-crosscheck rules raise alarms"""

    def __init__(self, year):
        self.year = year
        self.by_form = {}
        self.template_report = None
        trules, self.template_report = template_rules(year)
        self.n_template = len(trules)
        self.n_transcribed = self.n_crosscheck = 0
        have = set()
        for r in trules:
            self.by_form.setdefault(r.form, {}).setdefault(r.line, []).append(r)
            have.add((r.form, r.line))
        for r in TRANSCRIBED[year]:
            lst = self.by_form.setdefault(r.form, {}).setdefault(r.line, [])
            if (r.form, r.line) in have and r.cmp == 'eq' and r.kind not in ('tax-table', 'amount'):
                r.crosscheck = True
                self.n_crosscheck += 1
            else:
                self.n_transcribed += 1
            lst.append(r)
        # the lines a rule can exist for
        self.numeric = {}      # form -> {line: places}
        for fname, form in TR.form_objects(year).items():
            self.numeric[fname] = dict(TR.numeric_lines(form))
        self.lines_with_oracle = sorted((f, l) for f, d in self.by_form.items() for l, rs in d.items() if any(not r.crosscheck for r in rs))

    def summary(self):
        total = sum(len(v) for v in self.numeric.values())
        helpers = sum(1 for f, v in self.numeric.items() for l in v if l in HELPER_LINES.get(f, ()))
        with_oracle = [(f, l) for f, l in self.lines_with_oracle if l in self.numeric.get(f, {})]
        without = sorted((f, l) for f, v in self.numeric.items() for l in v
                         if (f, l) not in set(with_oracle) and l not in HELPER_LINES.get(f, ()))
        return dict(template_rules=self.n_template, transcription_rules=self.n_transcribed, transcription_crosschecks=self.n_crosscheck,
                    numeric_lines=total, helper_lines=helpers, lines_with_oracle=len(with_oracle),
                    non_numeric_lines_with_oracle=len(self.lines_with_oracle) - len(with_oracle),
                    lines_without_oracle=[f'{f}.{l}' for f, l in without])


@functools.lru_cache(maxsize=None)
def table(year):
    return Table(year)


def _fmt(x):
    return f'{x:.5f}'.rstrip('0').rstrip('.') if isinstance(x, float) else str(x)


def _evaluate(rule, c):
    """-> ('skip'|'na'|'absent', info) or ('ok', expected)"""
    c.ops = []
    c.refs = []
    try:
        exp = rule.fn(c)
    except Skip as e:
        return 'skip', str(e)
    except SourceAbsent as e:
        return 'absent', str(e)
    if exp is None:
        return 'na', None
    return 'ok', exp


def _compare(rule, actual, exp):
    """-> None when the line agrees, else text"""
    if rule.cmp == 'text':
        toks = (actual or '').upper().split()
        alien = [t for t in toks if t not in exp]
        if not toks:
            return 'is empty'
        return f'contains {alien[:4]}, which are not part of the spouse name known to the return {exp}' if alien else None
    try:
        a = float(actual) if actual != '' else 0.0
    except ValueError:
        return f'is not a number: {actual!r}'
    if rule.abs_compare:
        a, exp = abs(a), abs(exp)
    if rule.places == 0 and rule.cmp in ('ge', 'le'):
        exp = round(exp, 0)
    if rule.cmp == 'ge':
        return None if a >= exp - 0.005 - EPS else f'is less than {_fmt(exp)}'
    if rule.cmp == 'le':
        return None if a <= exp + 0.005 + EPS else f'is more than {_fmt(exp)}'
    if rule.places == 0 and rule.tol is None:
        e, tol = round(exp, 0), 0.5
    else:
        e, tol = exp, (rule.tol if rule.tol is not None else 0.5 * 10 ** (-rule.places))
    return None if abs(a - e) <= tol + EPS else f'expected {_fmt(e)}'


def check_solution(year, solution, inputs=None, partial=False, only=None):
    """-> (errors [(kind, message)], stats {counter: n})
    stats carries, besides the totals, 'chk|form.line' / 'nt|form.line' / 'ds|form.line' per line
    (checked / non-trivially: all operands non-zero and pairwise distinct / at least two distinct non-zero operands)
    only=(section, line): judge that line alone (the other lines are just its operands)"""
    tb = table(year)
    errors = []
    st = dict(lines_checked=0, lines_nontrivial=0, lines_discriminating=0, lines_skipped_missing_operand=0, lines_not_applicable=0,
              lines_without_oracle=0, rules_evaluated=0, oracle_conflicts=0, oracle_crosschecks=0)
    for sec, kv in solution.items():
        if only is not None and sec != only[0]:
            continue
        form = sec.split(':', 1)[0]
        rules = tb.by_form.get(form)
        numeric = tb.numeric.get(form)
        if numeric is None:
            continue          # input forms (W-2, 1099...) carry the user's entries
        c = None
        for line, actual in kv.items():
            if only is not None and line != only[1]:
                continue
            rs = rules.get(line) if rules else None
            if not rs:
                if line in numeric and line not in HELPER_LINES.get(form, ()):
                    st['lines_without_oracle'] += 1
                continue
            if c is None:
                c = Ctx(year, solution, sec, partial, inputs)
            checked = False
            main_exp = None
            for r in rs:
                st['rules_evaluated'] += 1
                what, exp = _evaluate(r, c)
                if r.crosscheck:
                    if what == 'ok' and main_exp is not None:
                        st['oracle_crosschecks'] += 1
                        if abs(exp - main_exp) > 1e-6:
                            st['oracle_conflicts'] += 1
                            st[f'conflict|{form}.{line}'] = st.get(f'conflict|{form}.{line}', 0) + 1
                    continue
                if what == 'skip':
                    st['lines_skipped_missing_operand'] += 1
                    continue
                if what == 'na':
                    st['lines_not_applicable'] += 1
                    continue
                if what == 'absent':
                    errors.append((f'{form}.{line}|carry-source-absent',
                                   f'{year} {sec}.{line} = {actual!r} but the line it is carried from, {exp}, was never produced although the return '
                                   f'declares it ({r.source}: {r.cite})'))
                    checked = True
                    continue
                if r.source == 'TEMPLATE' and main_exp is None and isinstance(exp, float):
                    main_exp = exp
                checked = True
                ops = c.ops
                nz = [x for x in ops if x != 0]
                if ops:
                    if len(nz) == len(ops) and len(set(ops)) == len(ops):
                        st['lines_nontrivial'] += 1
                        st[f'nt|{form}.{line}'] = st.get(f'nt|{form}.{line}', 0) + 1
                    if len(set(nz)) >= min(2, len(ops)):
                        st['lines_discriminating'] += 1
                        st[f'ds|{form}.{line}'] = st.get(f'ds|{form}.{line}', 0) + 1
                elif actual not in ('', '0', '0.00'):
                    st['lines_nontrivial'] += 1
                    st['lines_discriminating'] += 1
                    st[f'nt|{form}.{line}'] = st.get(f'nt|{form}.{line}', 0) + 1
                    st[f'ds|{form}.{line}'] = st.get(f'ds|{form}.{line}', 0) + 1
                bad = _compare(r, actual, exp)
                if bad:
                    errors.append((f'{form}.{line}|{r.kind}',
                                   f'{year} {sec}.{line} = {actual!r} {bad} from operands {[_fmt(x) for x in ops[:12]]} '
                                   f'[{r.source}: {r.cite[:260]}]'))
            if checked:
                st['lines_checked'] += 1
                st[f'chk|{form}.{line}'] = st.get(f'chk|{form}.{line}', 0) + 1
    return errors, st


# ---------------------------------------------------------------------------------------------------------------
_SEEN = {}


def throttle(year, base_name, errors, per_process=2):
    """the explorer keeps at most 400 violations per base; a defect that shows on every node of a base (a dropped 1099 box)
    would crowd out the rare ones.  Each worker process therefore reports a kind at most `per_process` times per base."""
    out = []
    for kind, msg in errors:
        k = (year, base_name, kind)
        n = _SEEN.get(k, 0)
        if n < per_process:
            _SEEN[k] = n + 1
            out.append((kind, msg))
    return out
