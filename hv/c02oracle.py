"""C02 oracle: every computed line equals what the official form instructs for it.

    check_solution(year, solution, inputs=None, partial=False) -> (errors, stats)

`solution` is {section: {line: string}} exactly as Solver.solution() renders it.  The oracle is a table, per year and
form, of line -> instruction; an instruction is a small function over an accessor `c`:

    c.L('12')            float value of line 12 of the same form instance ('' / absent optional line -> 0.0;
                         absent from a PARTIAL solution -> Skip)
    c.L('1040.11')       a line of another form;  c.B(...) booleans;  c.S(...) strings
    c.each('w-2', 'box_1')  the values of a line over all instances of a multi-copy form

Two sources, every rule is labelled with its source:
  TEMPLATE       derived by hv.c02_template_rules from the accessibility text of the bundled official template
  TRANSCRIPTION  written by hand from the official forms / instructions, each with a citation (NOT copied from
                 the habutax line functions; the form modules were read only for the line names)
A line that has both keeps the TEMPLATE rule for alarms; the transcription is evaluated as a cross-check of the
oracle itself (stats['oracle_conflicts']).  A line without a rule is never an alarm: it narrows the claim and is
listed (lines_without_oracle).
"""
import functools
import re

import hv  # noqa: F401
from hv import c02_template_rules as TR
from hv import statutory

YEARS = (2021, 2022, 2023)
EPS = 1e-6


class Skip(Exception):
    """an operand is absent from a partial solution (or shown in parentheses with an unknown sign convention)"""


class SourceAbsent(Exception):
    """the source end of a carry is absent from a complete solution although the return says it is needed"""


class Ctx(object):
    __slots__ = ('year', 'sol', 'sec', 'kv', 'partial', 'inputs', 'ops')

    def __init__(self, year, sol, sec, partial, inputs):
        self.year, self.sol, self.sec, self.kv = year, sol, sec, sol[sec]
        self.partial, self.inputs, self.ops = partial, inputs, []

    def _raw(self, ref):
        if '.' in ref:
            sec, k = ref.split('.', 1)
            kv = self.sol.get(sec)
            if kv is None:
                if self.partial:
                    raise Skip(ref)
                return None
        else:
            kv, k = self.kv, ref
        v = kv.get(k)
        if v is None and self.partial:
            raise Skip(ref)
        return v

    def has(self, ref):
        if '.' in ref:
            sec, k = ref.split('.', 1)
            return k in self.sol.get(sec, ())
        return ref in self.kv

    def has_form(self, form):
        return form in self.sol

    def L(self, ref):
        v = self._raw(ref)
        x = float(v) if v not in (None, '') else 0.0
        self.ops.append(x)
        return x

    def Lreq(self, ref):
        """a line that must have been produced (source end of a carry the return declares as needed)"""
        v = self._raw(ref)
        if v is None:
            raise SourceAbsent(ref)
        x = float(v) if v != '' else 0.0
        self.ops.append(x)
        return x

    def B(self, ref):
        v = self._raw(ref)
        return v == 'True'

    def S(self, ref):
        v = self._raw(ref)
        return v or ''

    def status(self):
        return self.S('1040.filing_status')

    def instances(self, form):
        p = form + ':'
        return [s for s in self.sol if s.startswith(p)]

    def each(self, form, line, where=None):
        """values of `line` over every instance of a multi-copy form present in the solution"""
        out = []
        for s in self.instances(form):
            kv = self.sol[s]
            if where is not None and not where(kv):
                continue
            v = kv.get(line)
            if v is None:
                if self.partial:
                    raise Skip(f'{s}.{line}')
                v = ''
            x = float(v) if v != '' else 0.0
            self.ops.append(x)
            out.append(x)
        return out

    def I(self, name):
        """an answer of the return (None when unknown)"""
        if self.inputs is None:
            return None
        return self.inputs.get(name)

    def yes(self, name):
        v = self.I(name)
        if v is None:
            return None
        return str(v).strip().lower() in ('yes', 'true', 'y', '1')


class Rule(object):
    __slots__ = ('form', 'line', 'kind', 'fn', 'source', 'cite', 'places', 'tol', 'cmp', 'abs_compare', 'crosscheck')

    def __init__(self, form, line, kind, fn, source, cite, places=2, tol=None, cmp='eq', abs_compare=False):
        self.form, self.line, self.kind, self.fn, self.source, self.cite = form, line, kind, fn, source, cite
        self.places, self.tol, self.cmp, self.abs_compare, self.crosscheck = places, tol, cmp, abs_compare, False


# ---------------------------------------------------------------------------------------------------------------
# TEMPLATE rules: IR -> function
def _ceil_multiple(x, m):
    if x <= 0:
        return x
    q = x / m
    n = int(q)
    if q - n > 1e-9:
        n += 1
    return n * m


def compile_ir(ir):
    op = ir['op']
    neg = ir.get('negative_display') or []
    floor0, cap0, ceilm = ir['floor0'], ir['cap0'], ir['ceil_multiple']

    def post(c, x):
        for o in neg:
            if abs(c.L(o)) > 0:
                c.ops.pop()
                raise Skip('parenthesized operand ' + o)
            c.ops.pop()
        if floor0 and x < 0:
            x = 0.0
        if cap0 and x > 0:
            x = 0.0
        if ceilm:
            x = _ceil_multiple(x, ceilm)
        return x
    if op == 'sum':
        lines = ir['lines']
        return lambda c: post(c, sum(c.L(x) for x in lines))
    if op == 'diff':
        a, b = ir['a'], ir['b']
        return lambda c: post(c, c.L(b) - c.L(a))
    if op == 'mulc':
        a, k = ir['a'], ir['k']
        return lambda c: post(c, c.L(a) * k)
    if op == 'mull':
        a, b = ir['a'], ir['b']
        return lambda c: post(c, c.L(a) * c.L(b))
    if op == 'div':
        a, b, cap = ir['a'], ir['b'], ir['cap']

        def f(c):
            x, y = c.L(a), c.L(b)
            if y == 0:
                return None
            q = x / y
            if cap is not None and q >= cap:
                q = cap
            return q
        return f
    if op == 'minmax':
        args, which = ir['args'], min if ir['which'] == 'smaller' else max

        def f(c):
            vals = []
            for a in args:
                if a[0] == 'line':
                    vals.append(c.L(a[1]))
                elif a[0] == 'mfs':
                    st = c.status()
                    if not st:
                        raise Skip('filing status')
                    vals.append(a[2] if st == 'MarriedFilingSeparately' else a[1])
            return post(c, which(vals))
        return f
    if op == 'copy':
        ref = ir['ref']
        return lambda c: post(c, c.L(ref))
    raise ValueError(op)


def template_rules(year):
    irs, report = TR.derive(year)
    out = []
    for (form, line), ir in irs.items():
        places = ir['line_places']
        tol = None
        if ir['op'] == 'div':
            # "rounded to at least N places": any rendering with >= N places is within half a unit of the N-th place
            tol = 0.5 * 10 ** (-ir['places'])
        r = Rule(form, line, ir['kind'], compile_ir(ir), 'TEMPLATE', f'{ir["pdf"]} field {ir["field"]}: "{ir["text"]}"',
                 places=places, tol=tol, abs_compare=False)
        out.append(r)
    return out, report


# ---------------------------------------------------------------------------------------------------------------
# helpers for the transcription table
def SUM(*refs):
    return lambda c: sum(c.L(r) for r in refs)


def DIFF(b, a, floor=False):
    """b - a"""
    if floor:
        return lambda c: max(0.0, c.L(b) - c.L(a))
    return lambda c: c.L(b) - c.L(a)


def MUL(a, k):
    return lambda c: c.L(a) * k


def MIN(*refs):
    return lambda c: min(c.L(r) for r in refs)


def CARRY(ref):
    return lambda c: c.L(ref)


def CONST(k):
    return lambda c: k


def BYSTATUS(table):
    """table: {status name: amount}; '*' = every other status"""
    def f(c):
        st = c.status()
        if not st:
            raise Skip('filing status')
        return table[st] if st in table else table['*']
    return f


TRANSCRIBED = {y: [] for y in YEARS}


def T(years, form, line, kind, fn, cite, places=2, tol=None, cmp='eq', abs_compare=False):
    for y in years:
        TRANSCRIBED[y].append(Rule(form, line, kind, fn, 'TRANSCRIPTION', cite, places, tol, cmp, abs_compare))


Y21, Y22, Y23 = (2021,), (2022,), (2023,)
Y2223 = (2022, 2023)
ALL = YEARS
JOINT = ('MarriedFilingJointly', 'QualifyingSurvivingSpouse', 'QualifyingWidowWidower')


@functools.lru_cache(maxsize=200000)
def _tax(year, status, cents):
    return float(statutory.expected_tax(year, status, cents / 100.0))


def TAX_ON(ref):
    """'Figure the tax on the amount on line N' (Tax Table under $100,000, Tax Computation Worksheet from there)"""
    def f(c):
        st = c.status()
        if not st:
            raise Skip('filing status')
        x = c.L(ref)
        return _tax(c.year, st, int(round(x * 100)))
    return f


# ===============================================================================================================
# TRANSCRIPTION, Form 1040
def _w2(c, box):
    return sum(c.each('w-2', box))


def _f1040_2b(c):
    # Form 1040 line 2b: "Taxable interest. Attach Sch. B if required"; Schedule B line 4: "Enter the result here and on
    # Form 1040 or 1040-SR, line 2b".  Without Schedule B the line is the taxable interest of the Forms 1099-INT
    # (box 1 interest income, box 3 interest on U.S. savings bonds and Treasury obligations).
    if c.has('1040_sb.4'):
        return c.L('1040_sb.4')
    if c.has_form('1040_sb') and c.partial:
        raise Skip('1040_sb.4')
    for b in ('box_10', 'box_11', 'box_12', 'box_13'):
        if any(c.each('1099-int', b)):
            return None     # market discount / bond premium adjustments
    return sum(c.each('1099-int', 'box_1')) + sum(c.each('1099-int', 'box_3'))


def _f1040_3b(c):
    if c.has('1040_sb.6'):
        return c.L('1040_sb.6')
    if c.has_form('1040_sb') and c.partial:
        raise Skip('1040_sb.6')
    return sum(c.each('1099-div', 'box_1a'))


T(Y21, '1040', '1', 'includes', lambda c: _w2(c, 'box_1'),
  'Form 1040 (2021) line 1: Wages, salaries, tips, etc. Attach Form(s) W-2 [instructions: the total of box 1 of all Forms W-2, plus other wages]',
  cmp='ge')
T(Y2223, '1040', '1a', 'carry', lambda c: _w2(c, 'box_1'),
  'Form 1040 (2022/2023) line 1a: Total amount from Form(s) W-2, box 1')
T(Y2223, '1040', '1z', 'sum', SUM('1a', '1b', '1c', '1d', '1e', '1f', '1g', '1h'),
  'Form 1040 (2022/2023) line 1z: Add lines 1a through 1h')
T(ALL, '1040', '2a', 'carry', lambda c: sum(c.each('1099-int', 'box_8')) + sum(c.each('1099-div', 'box_12')),
  'Form 1040 line 2a instructions: tax-exempt interest of Form 1099-INT box 8 and exempt-interest dividends of Form 1099-DIV box 12')
T(ALL, '1040', '2b', 'carry', _f1040_2b,
  'Form 1040 line 2b / Schedule B line 4: "Enter the result here and on Form 1040 or 1040-SR, line 2b"; without Schedule B the '
  'taxable interest of Forms 1099-INT boxes 1 and 3')
T(ALL, '1040', '3a', 'carry', lambda c: sum(c.each('1099-div', 'box_1b')),
  'Form 1040 line 3a instructions: qualified dividends, Form(s) 1099-DIV box 1b')
T(ALL, '1040', '3b', 'carry', _f1040_3b,
  'Form 1040 line 3b / Schedule B line 6: "Enter the total here and on Form 1040 or 1040-SR, line 3b"; without Schedule B the '
  'total of Form(s) 1099-DIV box 1a')


def _f1040_4b(c):
    tot = 0.0
    for s in c.instances('8606'):
        kv = c.sol[s]
        for k in ('15c', '18'):
            if k in kv and kv[k] != '':
                x = float(kv[k])
                c.ops.append(x)
                tot += max(0.0, x)
    if not c.instances('8606'):
        return None
    return tot


T(ALL, '1040', '4b', 'includes', _f1040_4b,
  'Form 8606 lines 15c and 18: "If more than zero, also include this amount on Form 1040, 1040-SR, or 1040-NR, line 4b"', cmp='ge')


def _f1040_7(c):
    if not c.B('7_checkbox'):
        return None
    return sum(c.each('1099-div', 'box_2a'))


T(ALL, '1040', '7', 'carry', _f1040_7,
  'Form 1040 line 7 instructions: if Schedule D is not required, enter the capital gain distributions of Form(s) 1099-DIV box 2a '
  'and check the box')
T(ALL, '1040', '8', 'carry', CARRY('1040_s1.10'), 'Form 1040 line 8: Other/Additional income from Schedule 1, line 10')
T(Y21, '1040', '9', 'sum', SUM('1', '2b', '3b', '4b', '5b', '6b', '7', '8'),
  'Form 1040 (2021) line 9: Add lines 1, 2b, 3b, 4b, 5b, 6b, 7, and 8')
T(Y2223, '1040', '9', 'sum', SUM('1z', '2b', '3b', '4b', '5b', '6b', '7', '8'),
  'Form 1040 (2022/2023) line 9: Add lines 1z, 2b, 3b, 4b, 5b, 6b, 7, and 8')
T(ALL, '1040', '10', 'carry', CARRY('1040_s1.26'), 'Form 1040 line 10: Adjustments to income from Schedule 1, line 26')
T(ALL, '1040', '11', 'difference', DIFF('9', '10'), 'Form 1040 line 11: Subtract line 10 from line 9')
T(Y21, '1040', '12a', 'carry', lambda c: c.L('1040_sa.17') if c.B('itemizing') else None,
  'Form 1040 (2021) line 12a / Schedule A line 17: "Also, enter this amount on Form 1040 or 1040-SR, line 12a"')
T(Y2223, '1040', '12', 'carry', lambda c: c.L('1040_sa.17') if c.B('itemizing') else None,
  'Form 1040 (2022/2023) line 12 / Schedule A line 17: "Also, enter this amount on Form 1040 or 1040-SR, line 12"')


def _f1040_12b(c):
    if c.B('itemizing'):
        return 0.0
    st = c.status()
    if not st:
        raise Skip('filing status')
    return 600.0 if st == 'MarriedFilingJointly' else 300.0


T(Y21, '1040', '12b', 'limit', _f1040_12b,
  'Form 1040 (2021) line 12b: Charitable contributions if you take the standard deduction: up to $300 ($600 if married filing jointly)',
  cmp='le')
T(Y21, '1040', '12c', 'sum', SUM('12a', '12b'), 'Form 1040 (2021) line 12c: Add lines 12a and 12b')
T(ALL, '1040', '13', 'carry', CARRY('8995.15'), 'Form 1040 line 13: Qualified business income deduction from Form 8995 (line 15)')
T(Y21, '1040', '14', 'sum', SUM('12c', '13'), 'Form 1040 (2021) line 14: Add lines 12c and 13')
T(Y2223, '1040', '14', 'sum', SUM('12', '13'), 'Form 1040 (2022/2023) line 14: Add lines 12 and 13')
T(ALL, '1040', '15', 'difference', DIFF('11', '14', floor=True), 'Form 1040 line 15: Subtract line 14 from line 11. If zero or less, enter -0-')


QD = '1040_qualdiv_capgain_tax_wkst'


def _f1040_16_wkst(c):
    if c.has(QD + '.25'):
        return c.L(QD + '.25')
    if c.has_form(QD) and c.partial:
        raise Skip(QD + '.25')
    return None


def _f1040_16_table(c):
    if c.has_form(QD):
        return None
    if c.L('3a') > 0 or c.L('7') > 0:
        return None      # the worksheet is mandatory there; its absence is not judged by this rule
    return TAX_ON('15')(c)


T(ALL, '1040', '16', 'carry', _f1040_16_wkst,
  'Qualified Dividends and Capital Gain Tax Worksheet line 25: "Tax on all taxable income ... Also include this amount on the entry '
  'space on Form 1040 or 1040-SR, line 16"')
T(ALL, '1040', '16', 'tax-table', _f1040_16_table,
  'Form 1040 line 16 instructions: Tax Table (taxable income under $100,000) or Tax Computation Worksheet on line 15')
T(ALL, '1040', '18', 'sum', SUM('16', '17'), 'Form 1040 line 18: Add lines 16 and 17')
T(Y2223, '1040', '19', 'carry', CARRY('1040_s8812.14'),
  'Schedule 8812 (2022/2023) line 14: "Enter this amount on Form 1040, 1040-SR, or 1040-NR, line 19"')
T(Y21, '1040', '19', 'carry', lambda c: c.L('1040_s8812.14h') if c.has('1040_s8812.14h') else None,
  'Schedule 8812 (2021) line 14h: "Enter this amount on line 19 of your Form 1040, 1040-SR, or 1040-NR"')
T(ALL, '1040', '20', 'carry', CARRY('1040_s3.8'), 'Form 1040 line 20: Amount from Schedule 3, line 8')
T(ALL, '1040', '21', 'sum', SUM('19', '20'), 'Form 1040 line 21: Add lines 19 and 20')
T(ALL, '1040', '22', 'difference', DIFF('18', '21', floor=True), 'Form 1040 line 22: Subtract line 21 from line 18. If zero or less, enter -0-')
T(ALL, '1040', '24', 'sum', SUM('22', '23'), 'Form 1040 line 24: Add lines 22 and 23. This is your total tax')
T(ALL, '1040', '25a', 'carry', lambda c: _w2(c, 'box_2'), 'Form 1040 line 25a: Federal income tax withheld from Form(s) W-2 (box 2)')
T(ALL, '1040', '25b', 'carry',
  lambda c: sum(sum(c.each(f, 'box_4')) for f in ('1099-int', '1099-div', '1099-r', '1099-g')),
  'Form 1040 line 25b: Federal income tax withheld from Form(s) 1099 (box 4 of Forms 1099-INT, 1099-DIV, 1099-R, 1099-G)')
T(ALL, '1040', '25c', 'includes', lambda c: c.L('8959.24') if c.has('8959.24') else None,
  'Form 8959 line 24: "Also include this amount with federal income tax withholding on Form 1040, 1040-SR, or 1040-NR, line 25c"', cmp='ge')
T(ALL, '1040', '25d', 'sum', SUM('25a', '25b', '25c'), 'Form 1040 line 25d: Add lines 25a through 25c')
T(Y2223, '1040', '28', 'carry', CARRY('1040_s8812.27'),
  'Schedule 8812 (2022/2023) line 27: "Enter this amount on Form 1040, 1040-SR, or 1040-NR, line 28"')
T(Y21, '1040', '28', 'carry', lambda c: c.L('1040_s8812.14i') if c.has('1040_s8812.14i') else None,
  'Schedule 8812 (2021) line 14i: "Enter this amount on line 28 of your Form 1040, 1040-SR, or 1040-NR"')
T(Y21, '1040', '30', 'carry', CARRY('1040_recovery_rebate_credit_wkst.credit'),
  'Form 1040 (2021) line 30: Recovery rebate credit, from line 14 of the Recovery Rebate Credit Worksheet')
T(Y21, '1040', '32', 'sum', SUM('27a', '28', '29', '30', '31'), 'Form 1040 (2021) line 32: Add lines 27a and 28 through 31')
T(Y2223, '1040', '32', 'sum', SUM('27', '28', '29', '31'), 'Form 1040 (2022/2023) line 32: Add lines 27, 28, 29, and 31')
T(ALL, '1040', '33', 'sum', SUM('25d', '26', '32'), 'Form 1040 line 33: Add lines 25d, 26, and 32. These are your total payments')
T(ALL, '1040', '34', 'difference', DIFF('33', '24', floor=True),
  'Form 1040 line 34: If line 33 is more than line 24, subtract line 24 from line 33. This is the amount you overpaid')


def _f1040_35a(c):
    over = c.L('34')
    x = over - c.L('36')
    pen = c.L('38')
    if over > 0 and pen > 0:
        x -= pen
    return x


T(ALL, '1040', '35a', 'difference', _f1040_35a,
  'Form 1040 lines 35a/36: amount of line 34 refunded / applied to next year\'s estimated tax; line 38 instructions: "Lines 35a, 36, '
  'and 38 must equal line 34"')
T(ALL, '1040', '36', 'limit', CARRY('34'), 'Form 1040 line 36: Amount of line 34 you want applied to your estimated tax', cmp='le')


def _f1040_37(c):
    due = c.L('24') - c.L('33')
    pen = c.L('38')
    if due > 0:
        return due + pen
    if due < 0:
        return 0.0
    return None


T(ALL, '1040', '37', 'difference', _f1040_37,
  'Form 1040 line 37: Subtract line 33 from line 24. This is the amount you owe; line 38 instructions: "Add the penalty to any tax due '
  'and enter the total on line 37"')

# ---------------------------------------------------------------------------------------------------------------
# Qualified Dividends and Capital Gain Tax Worksheet - Line 16 (Form 1040 instructions), 25 lines, same layout 2021-2023
QD_0 = {2021: {'Single': 40400, 'MarriedFilingSeparately': 40400, 'HeadOfHousehold': 54100, '*': 80800},
        2022: {'Single': 41675, 'MarriedFilingSeparately': 41675, 'HeadOfHousehold': 55800, '*': 83350},
        2023: {'Single': 44625, 'MarriedFilingSeparately': 44625, 'HeadOfHousehold': 59750, '*': 89250}}
QD_15 = {2021: {'Single': 445850, 'MarriedFilingSeparately': 250800, 'HeadOfHousehold': 473750, '*': 501600},
         2022: {'Single': 459750, 'MarriedFilingSeparately': 258600, 'HeadOfHousehold': 488500, '*': 517200},
         2023: {'Single': 492300, 'MarriedFilingSeparately': 276900, 'HeadOfHousehold': 523050, '*': 553850}}
_QC = 'Qualified Dividends and Capital Gain Tax Worksheet (Form 1040 instructions, line 16) '
T(ALL, QD, '1', 'carry', CARRY('1040.15'), _QC + 'line 1: Enter the amount from Form 1040 or 1040-SR, line 15')
T(ALL, QD, '2', 'carry', CARRY('1040.3a'), _QC + 'line 2: Enter the amount from Form 1040 or 1040-SR, line 3a')
T(ALL, QD, '3', 'carry', lambda c: c.L('1040.7') if c.B('1040.7_checkbox') else None,
  _QC + 'line 3: Are you filing Schedule D? No: enter the amount from Form 1040 or 1040-SR, line 7')
T(ALL, QD, '4', 'sum', SUM('2', '3'), _QC + 'line 4: Add lines 2 and 3')
T(ALL, QD, '5', 'difference', DIFF('1', '4', floor=True), _QC + 'line 5: Subtract line 4 from line 1. If zero or less, enter -0-')
for _y in YEARS:
    T((_y,), QD, '6', 'amount', BYSTATUS(QD_0[_y]),
      _QC + f'line 6 ({_y}): ${QD_0[_y]["Single"]:,} if single or married filing separately, ${QD_0[_y]["*"]:,} if married filing jointly or '
      f'qualifying widow(er)/surviving spouse, ${QD_0[_y]["HeadOfHousehold"]:,} if head of household')
    T((_y,), QD, '13', 'amount', BYSTATUS(QD_15[_y]),
      _QC + f'line 13 ({_y}): ${QD_15[_y]["Single"]:,} if single, ${QD_15[_y]["MarriedFilingSeparately"]:,} if married filing separately, '
      f'${QD_15[_y]["*"]:,} if married filing jointly or qualifying widow(er)/surviving spouse, ${QD_15[_y]["HeadOfHousehold"]:,} if head of household')
T(ALL, QD, '7', 'smaller', MIN('1', '6'), _QC + 'line 7: Enter the smaller of line 1 or line 6')
T(ALL, QD, '8', 'smaller', MIN('5', '7'), _QC + 'line 8: Enter the smaller of line 5 or line 7')
T(ALL, QD, '9', 'difference', DIFF('7', '8'), _QC + 'line 9: Subtract line 8 from line 7. This amount is taxed at 0%')
T(ALL, QD, '10', 'smaller', MIN('1', '4'), _QC + 'line 10: Enter the smaller of line 1 or line 4')
T(ALL, QD, '11', 'carry', CARRY('9'), _QC + 'line 11: Enter the amount from line 9')
T(ALL, QD, '12', 'difference', DIFF('10', '11'), _QC + 'line 12: Subtract line 11 from line 10')
T(ALL, QD, '14', 'smaller', MIN('1', '13'), _QC + 'line 14: Enter the smaller of line 1 or line 13')
T(ALL, QD, '15', 'sum', SUM('5', '9'), _QC + 'line 15: Add lines 5 and 9')
T(ALL, QD, '16', 'difference', DIFF('14', '15', floor=True), _QC + 'line 16: Subtract line 15 from line 14. If zero or less, enter -0-')
T(ALL, QD, '17', 'smaller', MIN('12', '16'), _QC + 'line 17: Enter the smaller of line 12 or line 16')
T(ALL, QD, '18', 'product', MUL('17', 0.15), _QC + 'line 18: Multiply line 17 by 15% (0.15)')
T(ALL, QD, '19', 'sum', SUM('9', '17'), _QC + 'line 19: Add lines 9 and 17')
T(ALL, QD, '20', 'difference', DIFF('10', '19'), _QC + 'line 20: Subtract line 19 from line 10')
T(ALL, QD, '21', 'product', MUL('20', 0.20), _QC + 'line 21: Multiply line 20 by 20% (0.20)')
T(ALL, QD, '22', 'tax-table', TAX_ON('5'),
  _QC + 'line 22: Figure the tax on the amount on line 5 (Tax Table if less than $100,000, else Tax Computation Worksheet)')
T(ALL, QD, '23', 'sum', SUM('18', '21', '22'), _QC + 'line 23: Add lines 18, 21, and 22')
T(ALL, QD, '24', 'tax-table', TAX_ON('1'),
  _QC + 'line 24: Figure the tax on the amount on line 1 (Tax Table if less than $100,000, else Tax Computation Worksheet)')
T(ALL, QD, '25', 'smaller', MIN('23', '24'), _QC + 'line 25: Tax on all taxable income. Enter the smaller of line 23 or line 24')

# ---------------------------------------------------------------------------------------------------------------
# Schedule 1
T(ALL, '1040_s1', '10', 'combine', SUM('1', '2a', '3', '4', '5', '6', '7', '9'),
  'Schedule 1 line 10: Combine lines 1 through 7 and 9. Enter here and on Form 1040, line 8')
T(ALL, '1040_s1', '13', 'carry', lambda c: sum(c.each('8889', '13')) if c.instances('8889') else None,
  'Form 8889 line 13: "HSA deduction. Enter the smaller of line 2 or line 12 here and on Schedule 1 (Form 1040), Part II, line 13" '
  '(joint filers with two Forms 8889 combine the two line 13 amounts)')
T(ALL, '1040_s1', '18', 'carry', lambda c: sum(c.each('1099-int', 'box_2')),
  'Schedule 1 line 18 instructions: Penalty on early withdrawal of savings, Form 1099-INT box 2')
T(ALL, '1040_s1', '26', 'sum', SUM('11', '12', '13', '14', '15', '16', '17', '18', '19a', '20', '21', '22', '23', '25'),
  'Schedule 1 line 26: Add lines 11 through 23 and 25. Enter here and on Form 1040, line 10')

# Schedule 3
T((2021, 2022), '1040_s3', '8', 'sum', SUM('1', '2', '3', '4', '5', '7'),
  'Schedule 3 (2021/2022) line 8: Add lines 1 through 5 and 7. Enter here and on Form 1040, line 20')
T(Y23, '1040_s3', '8', 'sum', SUM('1', '2', '3', '4', '5a', '5b', '7'),
  'Schedule 3 (2023) line 8: Add lines 1 through 4, 5a, 5b, and 7. Enter here and on Form 1040, line 20')


def _s3_1(c):
    tot = sum(c.each('1099-div', 'box_7')) + sum(c.each('1099-int', 'box_6'))
    st = c.status()
    if not st:
        raise Skip('filing status')
    if tot > (600.0 if st == 'MarriedFilingJointly' else 300.0):
        return None      # Form 1116 required
    return tot


T(ALL, '1040_s3', '1', 'carry', _s3_1,
  'Schedule 3 line 1 instructions (election to claim the foreign tax credit without Form 1116): total foreign taxes of Forms 1099-DIV box 7 '
  'and 1099-INT box 6, not more than $300 ($600 if married filing jointly)')

# Schedule A
T(ALL, '1040_sa', '2', 'carry', CARRY('1040.11'), 'Schedule A line 2: Enter amount from Form 1040 or 1040-SR, line 11')
T(ALL, '1040_sa', '3', 'product', MUL('2', 0.075), 'Schedule A line 3: Multiply line 2 by 7.5% (0.075)')
T(ALL, '1040_sa', '4', 'difference', DIFF('1', '3', floor=True),
  'Schedule A line 4: Subtract line 3 from line 1. If line 3 is more than line 1, enter -0-')
T(ALL, '1040_sa', '5d', 'sum', SUM('5a', '5b', '5c'), 'Schedule A line 5d: Add lines 5a through 5c')
T(ALL, '1040_sa', '5e', 'smaller',
  lambda c: min(c.L('5d'), BYSTATUS({'MarriedFilingSeparately': 5000.0, '*': 10000.0})(c)),
  'Schedule A line 5e: Enter the smaller of line 5d or $10,000 ($5,000 if married filing separately)')
T(ALL, '1040_sa', '7', 'sum', SUM('5e', '6'), 'Schedule A line 7: Add lines 5e and 6')
T(Y21, '1040_sa', '8e', 'sum', SUM('8a', '8b', '8c', '8d'), 'Schedule A (2021) line 8e: Add lines 8a through 8d')
T(Y2223, '1040_sa', '8e', 'sum', SUM('8a', '8b', '8c'), 'Schedule A (2022/2023) line 8e: Add lines 8a through 8c')
T(ALL, '1040_sa', '10', 'sum', SUM('8e', '9'), 'Schedule A line 10: Add lines 8e and 9')
T(ALL, '1040_sa', '14', 'sum', SUM('11', '12', '13'), 'Schedule A line 14: Add lines 11 through 13')
T(ALL, '1040_sa', '17', 'sum', SUM('4', '7', '10', '14', '15', '16'),
  'Schedule A line 17: Add the amounts in the far right column for lines 4 through 16 (lines 4, 7, 10, 14, 15, 16)')


def _sa_5a(c):
    if c.B('5a_checkbox'):
        return None
    return _w2(c, 'box_17') + _w2(c, 'box_19')


T(ALL, '1040_sa', '5a', 'includes', _sa_5a,
  'Schedule A line 5a instructions: state and local income taxes withheld from your salary (Form(s) W-2 boxes 17 and 19) are included', cmp='ge')


def _sa_8a(c):
    if any(x > 750000 for x in c.each('1098', 'box_2')):
        return None
    c.ops[:] = []
    return sum(c.each('1098', 'box_1')) + sum(c.each('1098', 'box_6'))


T(ALL, '1040_sa', '8a', 'carry', _sa_8a,
  'Schedule A line 8a: Home mortgage interest and points reported to you on Form 1098 (boxes 1 and 6), when not limited')

# Schedule B
_SB_ROWS = 14
T(ALL, '1040_sb', '2', 'sum', lambda c: sum(c.L(f'1_amount_{i}') for i in range(_SB_ROWS)), 'Schedule B line 2: Add the amounts on line 1')
T(ALL, '1040_sb', '4', 'difference', DIFF('2', '3'), 'Schedule B line 4: Subtract line 3 from line 2')
T(ALL, '1040_sb', '6', 'sum', lambda c: sum(c.L(f'5_amount_{i}') for i in range(_SB_ROWS)), 'Schedule B line 6: Add the amounts on line 5')


def _sb_2_carry(c):
    n = len(c.instances('1099-int'))
    if n > _SB_ROWS:
        return None
    for b in ('box_10', 'box_11', 'box_12', 'box_13'):
        if any(c.each('1099-int', b)):
            return None
    c.ops[:] = []
    return sum(c.each('1099-int', 'box_1')) + sum(c.each('1099-int', 'box_3'))


T(ALL, '1040_sb', '2', 'carry', _sb_2_carry,
  'Schedule B line 1 instructions: list every payer and the taxable interest shown on Forms 1099-INT (box 1 and box 3)')
T(ALL, '1040_sb', '6', 'carry', lambda c: sum(c.each('1099-div', 'box_1a')) if len(c.instances('1099-div')) <= _SB_ROWS else None,
  'Schedule B line 5 instructions: list every payer and the ordinary dividends shown on Forms 1099-DIV box 1a')

# ---------------------------------------------------------------------------------------------------------------
# Schedule 8812
S8 = '1040_s8812'
T(ALL, S8, '1', 'carry', CARRY('1040.11'), 'Schedule 8812 line 1: Enter the amount from line 11 of your Form 1040, 1040-SR, or 1040-NR')
T(ALL, S8, '2d', 'sum', SUM('2a', '2b', '2c'), 'Schedule 8812 line 2d: Add lines 2a through 2c')
T(ALL, S8, '3', 'sum', SUM('1', '2d'), 'Schedule 8812 line 3: Add lines 1 and 2d')
T(ALL, S8, '7', 'product', MUL('6', 500.0), 'Schedule 8812 line 7: Multiply line 6 by $500')
T(ALL, S8, '8', 'sum', SUM('5', '7'), 'Schedule 8812 line 8: Add lines 5 and 7')
T(ALL, S8, '9', 'amount', BYSTATUS({'MarriedFilingJointly': 400000.0, '*': 200000.0}),
  'Schedule 8812 line 9: Married filing jointly - $400,000; all other filing statuses - $200,000')
T(ALL, S8, '10', 'difference', lambda c: _ceil_multiple(max(0.0, c.L('3') - c.L('9')), 1000.0),
  'Schedule 8812 line 10: Subtract line 9 from line 3. If zero or less, enter -0-. If more than zero and not a multiple of $1,000, '
  'enter the next multiple of $1,000')
T(ALL, S8, '11', 'product', MUL('10', 0.05), 'Schedule 8812 line 11: Multiply line 10 by 5% (0.05)')
T(ALL, S8, 'clwkst_a_1', 'carry', CARRY('1040.18'), 'Credit Limit Worksheet A line 1: Enter the amount from line 18 of your Form 1040')


def _clw_a_2(c):
    y = c.year
    if y < 2023 and c.L('1040_s3.5') != 0:
        return None      # only Form 5695 line 30 (part of Schedule 3 line 5) belongs here
    refs = ['1', '2', '3', '4', '6d', '6e', '6f', '6l']
    if y == 2023:
        refs += ['5b', '6m']
    return sum(c.L('1040_s3.' + r) for r in refs)


T(ALL, S8, 'clwkst_a_2', 'sum', _clw_a_2,
  'Credit Limit Worksheet A line 2: add the amounts of Schedule 3 lines 1, 2, 3, 4, (Form 5695 line 30 / 2023: line 5b), 6d, 6e, 6f, 6l (2023: 6m)')
T(ALL, S8, 'clwkst_a_3', 'difference', DIFF('clwkst_a_1', 'clwkst_a_2'), 'Credit Limit Worksheet A line 3: Subtract line 2 from line 1')
T(ALL, S8, 'clwkst_a_5', 'difference', DIFF('clwkst_a_3', 'clwkst_a_4'),
  'Credit Limit Worksheet A line 5: Subtract line 4 from line 3. Enter here and on Schedule 8812, line 13 (2021: line 14c / 15a)')
# 2022 / 2023 layout
T(Y2223, S8, '5', 'product', MUL('4', 2000.0), 'Schedule 8812 (2022/2023) line 5: Multiply line 4 by $2,000')
T(Y2223, S8, '12', 'difference', DIFF('8', '11', floor=True),
  'Schedule 8812 (2022/2023) line 12: Is the amount on line 8 more than the amount on line 11? No: enter -0- (on lines 14 and 27). '
  'Yes: subtract line 11 from line 8')
T(Y2223, S8, '13', 'carry', CARRY('clwkst_a_5'), 'Schedule 8812 (2022/2023) line 13: Enter the amount from Credit Limit Worksheet A')
T(Y2223, S8, '14', 'smaller', MIN('12', '13'), 'Schedule 8812 (2022/2023) line 14: Enter the smaller of line 12 or line 13')
T(Y2223, S8, '16a', 'difference', DIFF('12', '14'), 'Schedule 8812 (2022/2023) line 16a: Subtract line 14 from line 12')
T(Y22, S8, '16b', 'product', MUL('4', 1500.0),
  'Schedule 8812 (2022) line 16b: Number of qualifying children under 17 with the required social security number x $1,500')
T(Y23, S8, '16b', 'product', MUL('4', 1600.0),
  'Schedule 8812 (2023) line 16b: Number of qualifying children under 17 with the required social security number x $1,600')
T(Y2223, S8, '17', 'smaller', MIN('16a', '16b'), 'Schedule 8812 (2022/2023) line 17: Enter the smaller of line 16a or line 16b')
T(Y2223, S8, '27', 'limit', lambda c: c.L('17') if c.has('17') else (0.0 if not c.partial else None),
  'Schedule 8812 (2022/2023) line 27: additional child tax credit, the smaller of line 17 and line 20 / line 26', cmp='le')
# 2021 layout
T(Y21, S8, '4c', 'difference', DIFF('4a', '4b'), 'Schedule 8812 (2021) line 4c: Subtract line 4b from line 4a', places=0)
T(Y21, S8, '5', 'carry', lambda c: c.L('5_ws_12') if c.L('4a') > 0 else 0.0,
  'Schedule 8812 (2021) line 5: If line 4a is more than zero, enter the amount from the Line 5 Worksheet; otherwise, enter -0-')
T(Y21, S8, '12', 'difference', DIFF('8', '11', floor=True), 'Schedule 8812 (2021) line 12: Subtract line 11 from line 8. If zero or less, enter -0-')
T(Y21, S8, '14a', 'smaller', MIN('7', '12'), 'Schedule 8812 (2021) line 14a: Enter the smaller of line 7 or line 12')
T(Y21, S8, '14b', 'difference', DIFF('12', '14a'), 'Schedule 8812 (2021) line 14b: Subtract line 14a from line 12')
T(Y21, S8, '14c', 'carry', lambda c: c.L('clwkst_a_5') if c.L('14a') != 0 else 0.0,
  'Schedule 8812 (2021) line 14c: If line 14a is zero, enter -0-; otherwise, enter the amount from the Credit Limit Worksheet A')
T(Y21, S8, '14d', 'smaller', MIN('14a', '14c'), 'Schedule 8812 (2021) line 14d: Enter the smaller of line 14a or line 14c')
T(Y21, S8, '14e', 'sum', SUM('14b', '14d'), 'Schedule 8812 (2021) line 14e: Add lines 14b and 14d')
T(Y21, S8, '14g', 'difference', DIFF('14e', '14f', floor=True), 'Schedule 8812 (2021) line 14g: Subtract line 14f from line 14e. If zero or less, enter -0-')
T(Y21, S8, '14h', 'smaller', MIN('14d', '14g'), 'Schedule 8812 (2021) line 14h: Enter the smaller of line 14d or line 14g')
T(Y21, S8, '14i', 'difference', DIFF('14g', '14h'), 'Schedule 8812 (2021) line 14i: Subtract line 14h from line 14g')
T(Y21, S8, '28a', 'carry', CARRY('14f'), 'Schedule 8812 (2021) line 28a: Enter the amount from line 14f or line 15e, whichever applies')
T(Y21, S8, '28b', 'carry', CARRY('14e'), 'Schedule 8812 (2021) line 28b: Enter the amount from line 14e or line 15d, whichever applies')
T(Y21, S8, '29', 'difference', DIFF('28a', '28b'), 'Schedule 8812 (2021) line 29: Subtract line 28b from line 28a')
T(Y21, S8, '31', 'smaller', MIN('4a', '30'), 'Schedule 8812 (2021) line 31: Enter the smaller of line 4a or line 30', places=0)
T(Y21, S8, '32', 'difference', DIFF('30', '31'), 'Schedule 8812 (2021) line 32: Subtract line 31 from line 30', places=0)
T(Y21, S8, '33', 'amount', BYSTATUS({'MarriedFilingJointly': 60000.0, 'QualifyingWidowWidower': 60000.0, 'HeadOfHousehold': 50000.0, '*': 40000.0}),
  'Schedule 8812 (2021) line 33: Married filing jointly or Qualifying widow(er) - $60,000; Head of household - $50,000; all other - $40,000')
T(Y21, S8, '34', 'difference', DIFF('3', '33', floor=True), 'Schedule 8812 (2021) line 34: Subtract line 33 from line 3. If zero or less, enter -0-')
T(Y21, S8, '35', 'carry', CARRY('33'), 'Schedule 8812 (2021) line 35: Enter the amount from line 33')
T(Y21, S8, '36', 'ratio', lambda c: (min(1.0, c.L('34') / c.L('35')) if c.L('35') else None),
  'Schedule 8812 (2021) line 36: Divide line 34 by line 35. Enter the result as a decimal (rounded to at least three places). '
  'If the result is 1.000 or more, enter 1.000', tol=0.0005)
T(Y21, S8, '37', 'product', MUL('32', 2000.0), 'Schedule 8812 (2021) line 37: Multiply line 32 by $2,000')
T(Y21, S8, '38', 'product', lambda c: c.L('37') * c.L('36'), 'Schedule 8812 (2021) line 38: Multiply line 37 by line 36')
T(Y21, S8, '39', 'difference', DIFF('37', '38'), 'Schedule 8812 (2021) line 39: Subtract line 38 from line 37')
T(Y21, S8, '40', 'difference', DIFF('29', '39', floor=True), 'Schedule 8812 (2021) line 40: Subtract line 39 from line 29. If zero or less, enter -0-')
# 2021 Line 5 Worksheet (Schedule 8812 instructions)
_W5 = 'Line 5 Worksheet (2021 Schedule 8812 instructions) '
T(Y21, S8, '5_ws_1', 'product', MUL('4b', 3600.0), _W5 + 'line 1: Multiply Schedule 8812, line 4b, by $3,600')
T(Y21, S8, '5_ws_2', 'product', MUL('4c', 3000.0), _W5 + 'line 2: Multiply Schedule 8812, line 4c, by $3,000')
T(Y21, S8, '5_ws_3', 'sum', SUM('5_ws_1', '5_ws_2'), _W5 + 'line 3: Add line 1 and line 2')
T(Y21, S8, '5_ws_4', 'product', MUL('4a', 2000.0), _W5 + 'line 4: Multiply Schedule 8812, line 4a, by $2,000')
T(Y21, S8, '5_ws_5', 'difference', DIFF('5_ws_3', '5_ws_4'), _W5 + 'line 5: Subtract line 4 from line 3')
T(Y21, S8, '5_ws_6', 'amount', BYSTATUS({'MarriedFilingJointly': 12500.0, 'QualifyingWidowWidower': 2500.0, 'HeadOfHousehold': 4375.0, '*': 6250.0}),
  _W5 + 'line 6: Married filing jointly - $12,500; Qualifying widow(er) - $2,500; Head of household - $4,375; all other - $6,250')
T(Y21, S8, '5_ws_7', 'smaller', MIN('5_ws_5', '5_ws_6'), _W5 + 'line 7: Enter the smaller of line 5 or line 6')
T(Y21, S8, '5_ws_8', 'amount', BYSTATUS({'MarriedFilingJointly': 150000.0, 'QualifyingWidowWidower': 150000.0, 'HeadOfHousehold': 112500.0, '*': 75000.0}),
  _W5 + 'line 8: Married filing jointly or Qualifying widow(er) - $150,000; Head of household - $112,500; all other - $75,000')
T(Y21, S8, '5_ws_9', 'difference', lambda c: _ceil_multiple(max(0.0, c.L('3') - c.L('5_ws_8')), 1000.0),
  _W5 + 'line 9: Subtract line 8 from Schedule 8812, line 3. If zero or less, enter -0-. If more than zero and not a multiple of $1,000, '
  'enter the next multiple of $1,000')
T(Y21, S8, '5_ws_10', 'product', MUL('5_ws_9', 0.05), _W5 + 'line 10: Multiply line 9 by 5% (0.05)')
T(Y21, S8, '5_ws_11', 'smaller', MIN('5_ws_7', '5_ws_10'), _W5 + 'line 11: Enter the smaller of line 7 or line 10')
T(Y21, S8, '5_ws_12', 'difference', DIFF('5_ws_3', '5_ws_11'), _W5 + 'line 12: Subtract line 11 from line 3. Enter this amount on Schedule 8812, line 5')

# 2021 Recovery Rebate Credit Worksheet (only the lines transcribed with confidence)
RR = '1040_recovery_rebate_credit_wkst'
T(Y21, RR, '8', 'sum', SUM('6', '7'), 'Recovery Rebate Credit Worksheet (2021 Form 1040 instructions, line 30) line 8: Add lines 6 and 7')
T(Y21, RR, '14', 'difference', DIFF('12', '13', floor=True),
  'Recovery Rebate Credit Worksheet (2021) line 14: Subtract line 13 from line 12. If zero or less, enter -0-')
T(Y21, RR, 'credit', 'carry', lambda c: c.L('14') if c.has('14') else None,
  'Recovery Rebate Credit Worksheet (2021) line 14: "Enter the result here and on line 30 of Form 1040"')

# Worksheet To See if You Should Fill in Form 6251 (Schedule 2 line 1 instructions); only the plain arithmetic lines
A6 = '1040_s2_need_6251'
_A6 = 'Worksheet To See if You Should Fill in Form 6251 (Schedule 2 instructions) '
T(ALL, A6, '5', 'difference', DIFF('3', '4'), _A6 + 'line 5: Subtract line 4 from line 3')
T(ALL, A6, '7', 'difference', DIFF('5', '6'), _A6 + 'line 7: Is line 5 more than line 6? Yes: subtract line 6 from line 5')
T(ALL, A6, '11', 'sum', SUM('7', '10'), _A6 + 'line 11: Add lines 7 and 10')
T(ALL, A6, '12', 'product', MUL('11', 0.26), _A6 + 'line 12: Multiply line 11 by 26% (0.26)')
