"""E6: in-process CLI sessions (habutax.solve / fill_pdfs / list_*), scripted
input(), stand-in pdftk on PATH, temp dirs outside /repo and /verif."""
import argparse
import builtins
import contextlib
import io
import os
import shutil
import tempfile

import hv
import habutax

TOOLS = os.path.join(hv.VERIF, 'tools')


class Interrupt(object):
    """script entry that raises instead of answering"""

    def __init__(self, exc):
        self.exc = exc


@contextlib.contextmanager
def workdir():
    d = tempfile.mkdtemp(prefix='hvcli_')
    try:
        yield d
    finally:
        shutil.rmtree(d, ignore_errors=True)


@contextlib.contextmanager
def scripted_input(script, log):
    """script: callable(prompt_text, index) -> str | Interrupt, or a list"""
    old = builtins.input

    def fake(prompt=''):
        k = len(log)
        a = script(prompt, k) if callable(script) else (script[k] if k < len(script) else Interrupt(EOFError()))
        log.append((prompt, a if not isinstance(a, Interrupt) else repr(a.exc)))
        if isinstance(a, Interrupt):
            raise a.exc
        return a
    builtins.input = fake
    try:
        yield
    finally:
        builtins.input = old


def solve_cli(year, forms, input_file, script=None, prompt_missing=False, writeback=False, solution=None):
    """returns dict(stdout, exc, prompts)"""
    args = argparse.Namespace(input_file=input_file, year=year, forms=list(forms), prompt_missing=prompt_missing,
                              writeback_input=writeback, solution=solution)
    out = io.StringIO()
    log = []
    exc = None
    from hv import world
    with scripted_input(script or [], log), contextlib.redirect_stdout(out):
        try:
            with world.cpu_limit():
                habutax.solve(args)
        except KeyboardInterrupt as e:
            exc = ('KeyboardInterrupt', '')
        except SystemExit as e:
            exc = ('SystemExit', str(e.code))
        except BaseException as e:
            exc = (type(e).__name__, str(e)[:300])
    return dict(stdout=out.getvalue(), exc=exc, prompts=log)


def main_cli(argv, script=None):
    """the console entry point habutax.main() with sys.argv = ['habutax'] + argv; returns dict(stdout, stderr, exc)"""
    import sys
    out, err = io.StringIO(), io.StringIO()
    log = []
    exc = None
    old = sys.argv
    sys.argv = ['habutax'] + list(argv)
    try:
        with scripted_input(script or [], log), contextlib.redirect_stdout(out), contextlib.redirect_stderr(err):
            try:
                habutax.main()
            except KeyboardInterrupt:
                exc = ('KeyboardInterrupt', '')
            except SystemExit as e:
                exc = ('SystemExit', str(e.code))
            except BaseException as e:
                exc = (type(e).__name__, str(e)[:300])
    finally:
        sys.argv = old
    return dict(stdout=out.getvalue(), stderr=err.getvalue(), exc=exc, prompts=log)


def argv_arrangements(year, forms, infile, solfile, default_year):
    """every placement x spelling of the --year option on a `habutax solve` command line (and its omission when the
    year is the default): [(label, argv)]"""
    out = []
    rest = []
    for f in forms:
        rest += ['--form', f]
    rest += ['--solution', solfile]
    for style in ('sep', 'eq'):
        y = ['--year', str(year)] if style == 'sep' else [f'--year={year}']
        out.append((f'top/{style}', y + ['solve', infile] + rest))
        out.append((f'first/{style}', ['solve'] + y + [infile] + rest))
        out.append((f'mid/{style}', ['solve', infile] + y + rest))
        out.append((f'last/{style}', ['solve', infile] + rest + y))
        out.append((f'between-forms/{style}', ['solve'] + rest[:2] + y + rest[2:] + [infile]))
    if year == default_year:
        out.append(('omitted', ['solve', infile] + rest))
    return out


def fill_cli(solution_file, output, flatten=True):
    """runs habutax.fill_pdfs with the stand-in pdftk; returns dict(exc, cmds [argv lists], fdfs {n: bytes})"""
    logdir = tempfile.mkdtemp(prefix='hvpdftk_')
    old_path, old_log = os.environ.get('PATH', ''), os.environ.get('HV_PDFTK_LOG')
    os.environ['PATH'] = TOOLS + os.pathsep + old_path
    os.environ['HV_PDFTK_LOG'] = logdir
    exc = None
    out = io.StringIO()
    try:
        with contextlib.redirect_stdout(out):
            try:
                habutax.fill_pdfs(argparse.Namespace(solution=solution_file, output=output, flatten=flatten))
            except BaseException as e:
                exc = (type(e).__name__, str(e)[:300])
        cmds, fdfs = [], {}
        n = 0
        while os.path.exists(os.path.join(logdir, f'cmd_{n}')):
            with open(os.path.join(logdir, f'cmd_{n}')) as f:
                cmds.append(f.read().split('\n')[:-1])
            p = os.path.join(logdir, f'fdf_{n}')
            if os.path.exists(p):
                with open(p, 'rb') as f:
                    fdfs[n] = f.read()
            n += 1
    finally:
        os.environ['PATH'] = old_path
        if old_log is None:
            os.environ.pop('HV_PDFTK_LOG', None)
        else:
            os.environ['HV_PDFTK_LOG'] = old_log
        shutil.rmtree(logdir, ignore_errors=True)
    return dict(exc=exc, cmds=cmds, fdfs=fdfs, stdout=out.getvalue())


def write_inputs(path, inputs, layout=None):
    """inputs: dict 'form.key' -> string, written as an INI file by hand"""
    secs = {}
    for k, v in inputs.items():
        sec, key = k.split('.')
        secs.setdefault(sec, []).append((key, v))
    names = list(secs)
    if layout in ('sections-reversed', 'both-reversed'):
        names.reverse()
    with open(path, 'w') as f:
        for sec in names:
            f.write(f'[{sec}]\n')
            items = secs[sec]
            if layout in ('keys-reversed', 'both-reversed'):
                items = list(reversed(items))
            for key, v in items:
                if layout == 'colon-upper':
                    f.write(f'{key.upper()}: {v}\n\n')
                else:
                    f.write(f'{key} = {v}\n')
            f.write('\n')
