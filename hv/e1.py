"""E1: explicit-state BFS over operation histories of the real DependencyTracker.

State of the implementation = exact (_unmet, _met) contents + generator frame of an
open drain.  States are rebuilt by replaying the history on a fresh object.
Reference model: dict of lists + pending list (any release order within a
dependency is accepted).  Invariants: conservation, exactly once, no early
release, observers agree with the model after every step.
"""
import collections
import hv
from habutax import solver as hsolver

DEPS = ('A', 'B')
WAITERS = (1, 2, 3)


def alphabet():
    ops = []
    for d in DEPS:
        for w in WAITERS:
            ops.append(('add', d, w))
    for d in DEPS:
        ops.append(('meet', d))
    ops += [('open',), ('next',), ('close',), ('drain_all',)]
    return ops


class Model(object):
    def __init__(self):
        self.waiting = {}        # d -> list of waiters (insertion order of keys kept)
        self.pending = []        # met, not yet consumed by a drain
        self.ever = collections.Counter()      # (d, w) registrations
        self.released = collections.Counter()  # (d, w) releases
        self.met_ever = set()

    def add(self, d, w):
        self.waiting.setdefault(d, []).append(w)
        self.ever[(d, w)] += 1

    def meet(self, d):
        self.pending.append(d)
        self.met_ever.add(d)

    def next(self, yielded):
        """advance the model for one generator step; `yielded` is what the
        implementation produced (a waiter or the token STOP). Returns error or None."""
        while self.pending:
            d = self.pending[0]
            if self.waiting.get(d):
                if yielded is STOP:
                    return f'drain stopped while {d} is met and still has waiters {self.waiting[d]}'
                if yielded not in self.waiting[d]:
                    return f'released {yielded!r}, which does not wait on met dependency {d} (waiters {self.waiting[d]})'
                self.waiting[d].remove(yielded)
                self.released[(d, yielded)] += 1
                if not self.waiting[d]:
                    del self.waiting[d]
                    self.pending.pop(0)
                return None
            else:
                self.waiting.pop(d, None)
                self.pending.pop(0)
        if yielded is not STOP:
            return f'released {yielded!r} although no met dependency has a waiter'
        return None

    def has_met(self):
        return len(self.pending) > 0

    def has_unmet(self):
        return any(len(ws) > 0 and d not in self.pending for d, ws in self.waiting.items())


STOP = object()


class Impl(object):
    """drives a real tracker; gen is the open drain generator or None"""

    def __init__(self):
        self.t = hsolver.DependencyTracker()
        self.gen = None

    def key(self):
        t = self.t
        g = None
        if self.gen is not None:
            fr = self.gen.gi_frame
            if fr is None:
                g = ('done',)
            else:
                loc = tuple(sorted((k, repr(v)) for k, v in fr.f_locals.items() if k != 'self'))
                g = (fr.f_lasti, loc)
        return (tuple((d, tuple(ws)) for d, ws in t._unmet.items()), tuple(t._met), g)


def apply_op(impl, model, op):
    """apply op to both; returns (error or None, applicable)"""
    kind = op[0]
    if kind == 'add':
        impl.t.add_unmet(op[1], op[2])
        model.add(op[1], op[2])
    elif kind == 'meet':
        impl.t.meet(op[1])
        model.meet(op[1])
    elif kind == 'open':
        if impl.gen is not None:
            return None, False
        impl.gen = impl.t.met_dependents()
    elif kind == 'next':
        if impl.gen is None:
            return None, False
        try:
            y = next(impl.gen)
        except StopIteration:
            y = STOP
            impl.gen = None
        err = model.next(y)
        if err:
            return err, True
    elif kind == 'close':
        if impl.gen is None:
            return None, False
        impl.gen.close()
        impl.gen = None
    elif kind == 'drain_all':
        if impl.gen is not None:
            return None, False
        n = 0
        for y in impl.t.met_dependents():
            n += 1
            if n > 64:
                return 'drain does not terminate (64 releases)', True
            err = model.next(y)
            if err:
                return err, True
        err = model.next(STOP)
        if err:
            return err, True
        if impl.t.has_met():
            return 'has_met() still true after a complete drain', True
    return observers(impl, model), True


def observers(impl, model):
    t = impl.t
    try:
        if t.has_met() != model.has_met():
            return f'has_met()={t.has_met()} model={model.has_met()}'
        if t.has_unmet() != model.has_unmet():
            return f'has_unmet()={t.has_unmet()} model={model.has_unmet()} waiting={model.waiting} pending={model.pending}'
        real_deps = [d for d in t.unmet_dependencies() if len(t.unmet_dependents(d)) > 0]
        mod_deps = [d for d, ws in model.waiting.items() if ws]
        if sorted(real_deps) != sorted(mod_deps):
            return f'unmet_dependencies() with waiters={real_deps} model={mod_deps}'
        for d in mod_deps:
            if collections.Counter(t.unmet_dependents(d)) != collections.Counter(model.waiting[d]):
                return f'unmet_dependents({d})={t.unmet_dependents(d)} model={model.waiting[d]}'
        # conservation / exactly once / no early release
        for (d, w), n in model.ever.items():
            still = collections.Counter(model.waiting.get(d, []))[w]
            if model.released[(d, w)] + still != n:
                return f'conservation broken for waiter {w} on {d}'
        for (d, w), n in model.released.items():
            if d not in model.met_ever:
                return f'waiter {w} released although {d} was never met'
    except Exception as e:  # an observer raising is a violation too
        return f'observer raised {type(e).__name__}: {e}'
    return None


def build(history):
    impl, model = Impl(), Model()
    for op in history:
        err, ok = apply_op(impl, model, op)
        assert ok
        if err:
            return impl, model, err
    return impl, model, None


def _expand(args):
    hist, max_adds, max_meets = args
    out = []
    nadds = sum(1 for o in hist if o[0] == 'add')
    nmeets = sum(1 for o in hist if o[0] == 'meet')
    for op in alphabet():
        if op[0] == 'add' and nadds >= max_adds:
            continue
        if op[0] == 'meet' and nmeets >= max_meets:
            continue
        impl, model, err0 = build(hist)
        assert err0 is None
        try:
            err, ok = apply_op(impl, model, op)
        except Exception as e:
            err, ok = f'{op} raised {type(e).__name__}: {e}', True
        if not ok:
            continue
        if err:
            out.append((op, err, None, None))
            continue
        # model bookkeeping (ever/released) is part of the key so that merged
        # states have the same futures for the conservation invariant
        ik = impl.key()
        k = ik + (tuple(sorted(model.ever.items())), tuple(sorted(model.released.items())))
        out.append((op, None, k, ik))
    return out


def explore(depth, max_adds=4, max_meets=3, pmap=None):
    """level-synchronous BFS; returns dict(states, transitions, executions,
    violations[list of (history, err)], maxdepth, impl_states)"""
    if pmap is None:
        pmap = lambda f, xs: [f(x) for x in xs]
    seen = {Impl().key() + ((), ())}
    frontier = [()]
    states, transitions = 1, 0
    viols = []
    outcomes = set()
    maxd = 0
    samples = []
    for level in range(depth):
        if not frontier:
            break
        results = pmap(_expand, [(h, max_adds, max_meets) for h in frontier])
        nxt = []
        for hist, res in zip(frontier, results):
            for op, err, k, ik in res:
                transitions += 1
                nh = hist + (op,)
                maxd = max(maxd, len(nh))
                if err:
                    if len(viols) < 20:
                        viols.append((nh, err))
                    continue
                outcomes.add(ik)
                if k not in seen:
                    seen.add(k)
                    states += 1
                    nxt.append(nh)
        frontier = nxt
        if frontier:
            samples.append(frontier[len(frontier) // 2])
    return dict(states=states, transitions=transitions, executions=transitions, violations=viols,
                maxdepth=maxd, impl_states=len(outcomes), samples=samples, open_frontier=len(frontier))
