"""E2a: generated form programs run on the real Solver.

A program is a list of lines; every line has a form ('a' requested, 'b'
discoverable), a required flag and a body: a sequence of ops

    ('RL', full_line_name)      read a line       (own, other form, m:0.p mirror, absent form zz, unknown line)
    ('RI', name)                read an input     (own 'p'/'q', foreign 'b.p', instance 'm:1.p', absent 'zz.p')
    ('G', op)                   if i['p']: op     (conditional / late-discovered dependency)
    ('NI',)                     not_implemented()
    ('HI', name) / ('HV', line) `name in i` / `line in v`   (membership on a Mapping is decided by reading)
    ('GV', line)                v.get(line, default)        (the default is for KeyError only)

The value of a line is an injective rendering of everything it read, so a
stale, partial or overwritten read changes it.
"""
import itertools

import hv
from hv import world, refeval
from habutax.form import Form, InputForm, Jurisdiction
from habutax.inputs import BooleanInput, IntegerInput
from habutax.fields import StringField

YEAR = 1999


def _mk_line_fn(body):
    def fn(self, i, v):
        acc = []

        def ex(op):
            if op[0] == 'RL':
                acc.append(f'{op[1]}=<{v[op[1]]}>')
            elif op[0] == 'RI':
                acc.append(f'{op[1]}={i[op[1]]!r}')
            elif op[0] == 'G':
                g = i['p']
                acc.append(f'p?{g!r}')
                if g:
                    ex(op[1])
            elif op[0] == 'HI':        # membership test on the inputs (a Mapping: decided by reading)
                acc.append(f'{op[1]} in i={op[1] in i}')
            elif op[0] == 'HV':        # membership test on the values
                acc.append(f'{op[1]} in v={op[1] in v}')
            elif op[0] == 'GV':        # Mapping.get with a default: the default is for a KeyError only
                acc.append(f'{op[1]}.get=<{v.get(op[1], "dflt")}>')
            elif op[0] == 'NI':
                self.not_implemented()
            else:
                raise ValueError(op)
        for op in body:
            ex(op)
        return ' '.join(acc) if acc else None
    return fn


def build_forms(prog):
    """prog: list of dict(form, name, req, body) -> list of form classes"""
    classes = []
    for fname in ('a', 'b'):
        lines = [l for l in prog if l['form'] == fname]

        def __init__(self, _lines=lines, **kw):
            inputs = [BooleanInput('p', description='p'), IntegerInput('q', description='q')]
            req = [StringField(l['name'], _mk_line_fn(l['body'])) for l in _lines if l['req']]
            opt = [StringField(l['name'], _mk_line_fn(l['body'])) for l in _lines if not l['req']]
            Form.__init__(self, self._base, inputs, req, opt, **kw)
        cls = type('Gen_' + fname, (Form,), dict(
            form_name=fname, tax_year=YEAR, description='gen ' + fname, long_description='generated',
            jurisdiction=Jurisdiction.US, sequence_no=1, __init__=__init__,
            needs_filing=lambda self, values: False))
        cls._base = cls
        classes.append(cls)

    def m_init(self, **kw):
        InputForm.__init__(self, self._base, [BooleanInput('p', description='mp')], **kw)
    M = type('Gen_m', (InputForm,), dict(form_name='m', tax_year=YEAR, description='gen m',
                                         long_description='generated input form',
                                         jurisdiction=Jurisdiction.US, __init__=m_init))
    M._base = M
    classes.append(M)
    return classes


# --------------------------------------------------------------------------
# enumeration
def placements(n, forms=('a', 'b')):
    """line 1 is a required line of 'a'; others anywhere"""
    opts = [(f, r) for f in forms for r in (True, False)]
    for rest in itertools.product(opts, repeat=n - 1):
        yield [('a', True)] + list(rest)


NAMINGS = {
    'plain': lambda k: str(k + 1),
    # names with identical natural sort keys (sort_keys ignores punctuation): a scheduler that confuses
    # lines with equal keys is exposed
    'collide': lambda k: ['1', '_1', '1_', '1__'][k],
}


def base_names(place, naming='plain'):
    if naming == 'perform':
        # numbered within each form: lines of different forms share their base names (a.1, a.2, b.1)
        seen, out = {}, []
        for f, _ in place:
            seen[f] = seen.get(f, 0) + 1
            out.append(str(seen[f]))
        return out
    return [NAMINGS[naming](k) for k in range(len(place))]


def line_names(place, naming='plain'):
    return [f'{f}.{b}' for (f, _), b in zip(place, base_names(place, naming))]


def ops_for(place, k, rich=True, naming='plain'):
    """op alphabet for line k of a placement (simplest first)"""
    names = line_names(place, naming)
    own = place[k][0]
    other = 'b' if own == 'a' else 'a'
    ops = [('RI', 'p'), ('RI', 'q')]
    ops += [('RL', n) for n in names]
    ops += [('NI',)]
    ops += [('G', ('RL', n)) for n in names]
    ops += [('G', ('RI', 'q')), ('G', ('NI',))]
    ops += [('RI', f'{other}.p'), ('RI', 'm:1.p'), ('RL', 'm:0.p')]
    if rich:
        ops += [('RL', 'zz.1'), ('RI', 'zz.p'), ('G', ('RL', 'zz.1')), ('RL', f'{own}.99'), ('RI', 'nope')]
        nxt = names[(k + 1) % len(names)]
        ops += [('HI', 'q'), ('HV', nxt), ('GV', nxt)]
    return ops


def bodies(ops, kmax):
    for k in range(kmax + 1):
        for b in itertools.product(ops, repeat=k):
            yield list(b)


def _targets(op):
    if op[0] == 'G':
        return _targets(op[1])
    if op[0] in ('RL', 'HV', 'GV'):
        return [op[1]]
    return []


def reachable(prog):
    """syntactic demand closure: which lines can ever be demanded"""
    byname = {f"{l['form']}.{l['name']}": l for l in prog}
    forms_in = {'a'}
    dem = set(n for n, l in byname.items() if l['form'] == 'a' and l['req'])
    work = list(dem)
    while work:
        n = work.pop()
        for op in byname[n]['body']:
            for t in _targets(op):
                if t in byname:
                    new = [t]
                    f = byname[t]['form']
                    if f not in forms_in:
                        forms_in.add(f)
                        new += [m for m, l in byname.items() if l['form'] == f and l['req']]
                    for x in new:
                        if x not in dem:
                            dem.add(x)
                            work.append(x)
    return dem


def programs(n, kmax_per_line, total_ops=None, rich=True, forms=('a', 'b'), naming='plain', place_filter=None):
    """all programs with n lines; kmax_per_line: int; total_ops caps sum of body lengths.
    Programs with a syntactically unreachable line are skipped (they behave as a smaller program)."""
    for place in placements(n, forms):
        if place_filter is not None and not place_filter(place):
            continue
        alph = [ops_for(place, k, rich, naming) for k in range(n)]
        bylen = [{L: [list(b) for b in itertools.product(alph[k], repeat=L)] for L in range(kmax_per_line + 1)}
                 for k in range(n)]
        lens = [lv for lv in itertools.product(range(kmax_per_line + 1), repeat=n)
                if total_ops is None or sum(lv) <= total_ops]
        for combo in (c for lv in lens for c in itertools.product(*[bylen[k][lv[k]] for k in range(n)])):
            bn = base_names(place, naming)
            prog = [dict(form=place[k][0], name=bn[k], req=place[k][1], body=combo[k]) for k in range(n)]
            if len(reachable(prog)) < n:
                continue
            yield prog


def mentioned_inputs(prog):
    """full names of the inputs a program can read, and whether they steer (guard)"""
    out = {}

    def visit(op, form):
        if op[0] in ('RI', 'HI'):
            full = op[1] if '.' in op[1] else f'{form}.{op[1]}'
            out.setdefault(full, False)
        elif op[0] == 'G':
            out[f'{form}.p'] = True
            visit(op[1], form)
        elif op[0] == 'RL' and op[1] == 'm:0.p':
            out.setdefault('m:0.p', False)
    for l in prog:
        for op in l['body']:
            visit(op, l['form'])
    out.pop('zz.p', None)
    for k in [k for k in out if k.endswith('.nope')]:
        out.pop(k)
    return out


def environments(prog, reduced=False):
    """yield dict(file={name: str}, answers={name: str}) ; absent names not in answers are refused"""
    ment = mentioned_inputs(prog)
    names = sorted(ment)
    choices = []
    for n in names:
        isbool = n.endswith('.p')
        vals = (['yes', 'no'] if ment[n] else ['yes']) if isbool else ['1']
        c = []
        for v in vals:
            c.append(('file', v))
            c.append(('ans', v))
        c.append(('refuse', None))
        if not reduced or ment[n]:
            c.append(('file', 'bad'))
        choices.append(c)
    for combo in itertools.product(*choices):
        env = dict(file={}, answers={})
        for n, (src, v) in zip(names, combo):
            if src == 'file':
                env['file'][n] = v
            elif src == 'ans':
                env['answers'][n] = v
        yield env


# --------------------------------------------------------------------------
def execute(prog, env, schedule=None, requested=('a',), no_prompt=False, forms=None):
    forms = forms or build_forms(prog)
    ans = None if no_prompt else world.scripted_answer(env['answers'])
    # generated programs have at most a handful of lines: three seconds of processor time is a thousand times what one needs
    return world.run_solve(forms, list(requested), env['file'], answer=ans, schedule=schedule, cpu_seconds=3)


def reference(prog, final_inputs, requested=('a',), forms=None):
    forms = forms or build_forms(prog)
    return refeval.Ref(forms, list(requested), final_inputs).run()


def schedules_for(first_result, cap=48, pairs=None):
    """all rank permutations of the names that were compared in some sort during
    the natural-order run (connected components of the comparison graph).
    pairs: explicit comparison graph (used when closing the graph over several runs)"""
    if pairs is None:
        sch = first_result.schedule
        pairs = set(sch.compared) if sch is not None else set()
    if not pairs:
        return [], True
    # components
    adj = {}
    for a, b in pairs:
        adj.setdefault(a, set()).add(b)
        adj.setdefault(b, set()).add(a)
    comps, seen = [], set()
    for n in sorted(adj):
        if n in seen:
            continue
        comp, work = [], [n]
        seen.add(n)
        while work:
            x = work.pop()
            comp.append(x)
            for y in adj[x]:
                if y not in seen:
                    seen.add(y)
                    work.append(y)
        comps.append(sorted(comp, key=world.natural_key))
    perms = [list(itertools.permutations(c)) for c in comps]
    total = 1
    for p in perms:
        total *= len(p)
    out = []
    complete = True
    if total <= cap:
        for combo in itertools.product(*perms):
            order = [n for part in combo for n in part]
            out.append(order)
    else:
        complete = False
        for ci, p in enumerate(perms):
            for alt in p[:cap]:
                order = []
                for cj, c in enumerate(comps):
                    order += list(alt) if cj == ci else list(c)
                out.append(order)
    nat = [n for c in comps for n in c]
    out = [o for o in out if o != nat]
    return out, complete
