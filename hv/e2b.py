"""E2b: adversarial-environment exploration of Solver.solve().

Every line of a small universe of forms is *nondeterministic*: on each attempt the
explorer (not a program) picks its outcome -- complete; read a line that currently has no
value; read an input that is currently missing; not_implemented.  Reading something that
is available does not change solver state, so this menu over-approximates every
deterministic form program over the same names, with bodies of any length.  The prompt
answers or refuses.  DFS over choice histories replayed on a fresh real Solver, with
state hashing at every choice point."""
import configparser
import itertools

import hv
from hv import world
from habutax import solver as hsolver, inputs as hinputs, fields as hfields, values as hvalues
from habutax.form import Form, InputForm, Jurisdiction
from habutax.inputs import IntegerInput
from habutax.fields import StringField


class Prune(Exception):
    pass


class Cycle(Exception):
    pass


class Watchdog(Exception):
    pass


class TrackedDT(hsolver.DependencyTracker):
    """records the batches handed out by met_dependents()/unmet_dependencies() (the solver keeps them in
    local lists that are otherwise invisible to state hashing)"""

    def __init__(self, kind, owner):
        super().__init__()
        self.kind, self.owner = kind, owner
        self.round = []

    def met_dependents(self):
        batch = []
        self.owner.current_batch = (self.kind, batch)
        inner = super().met_dependents()

        def gen():
            for d in inner:
                batch.append(d.name())
                yield d
        return gen()

    def unmet_dependencies(self):
        r = super().unmet_dependencies()
        self.round = list(r)
        return r


class Universe(object):
    def __init__(self, lines, inputs, absent=True, minst=False):
        """lines: list of (form, name, required); inputs: list of (form, name)"""
        self.lines = lines
        self.inputs = inputs
        self.line_names = [f'{f}.{n}' for f, n, r in lines] + (['zz.1'] if absent else [])
        self.input_names = [f'{f}.{n}' for f, n in inputs] + (['zz.p'] if absent else [])
        self.forms = sorted(set(f.split(':')[0] for f, n, r in lines) | set(f.split(':')[0] for f, n in inputs))

    def describe(self):
        return dict(lines=[f'{f}.{n}{"" if r else "?"}' for f, n, r in self.lines], inputs=[f'{f}.{n}' for f, n in self.inputs])


QUICK = Universe([('a', '1', True), ('a', '2', False), ('b', '1', True)], [('a', 'p'), ('b', 'p')])
MID = Universe([('a', '1', True), ('a', '2', False), ('b', '1', True), ('b', '2', False)], [('a', 'p'), ('b', 'p')])
THOROUGH = Universe([('a', '1', True), ('a', '2', False), ('b', '1', True), ('b', '2', False), ('c', '1', True)],
                    [('a', 'p'), ('b', 'p'), ('c', 'p')])


class Execution(object):
    """one run of the real solver under a choice script"""

    def __init__(self, uni, script, seen, schedule_order=None, max_attempts=None):
        self.uni, self.script, self.seen = uni, script, seen
        self.pos = 0
        self.points = []      # (state key, number of choices) for choice points at index >= len(script)
        self.keys_this_run = set()
        self.errors = []
        self.attempts = {}
        self.waits = {}
        self.last_wait = {}
        self.prompted = []
        self.refused = False
        self.n_attempts = 0
        self.max_attempts = max_attempts or 10 * len(uni.line_names) * (len(uni.line_names) + len(uni.input_names) + 3)
        self.inflight = []
        self.solver = None
        self.order = schedule_order
        self.transitions = 0

    # -- state ---------------------------------------------------------
    def state_key(self, point):
        s = self.solver
        fd, idp = s._field_dependencies, s._input_dependencies
        supplied = tuple(sorted(f'{sec}.{k}' for sec in s._i.config.sections() for k in s._i.config[sec]))
        return (point,
                frozenset(s._v.values),
                tuple(sorted(f.name() for f in s._unattempted_fields)),
                frozenset((d, tuple(sorted(w.name() for w in ws))) for d, ws in fd._unmet.items()), tuple(fd._met),
                frozenset((d, tuple(sorted(w.name() for w in ws))) for d, ws in idp._unmet.items()), tuple(idp._met),
                tuple(sorted(s._unimplemented_fields)), s._refused_input, supplied,
                frozenset(s.forms), frozenset(s._input_map), frozenset(s._solving_fields),
                tuple(self.inflight), tuple(self.prompt_round()),
                tuple(sorted(self.prompted)))

    def prompt_round(self):
        # inputs still to be asked in the current prompt round
        r = self.solver._input_dependencies.round
        return [n for n in r if n not in self.prompted] if self._in_prompt_round else []

    def choose(self, point, n):
        """returns the index chosen at this choice point"""
        key = self.state_key(point)
        self.transitions += 1
        if self.pos < len(self.script):
            k = self.script[self.pos]
            self.pos += 1
            if k >= n:
                raise RuntimeError(f'replay divergence: choice {k} of {n} at {point}')
            self.keys_this_run.add(key)
            return k
        if key in self.keys_this_run:
            raise Cycle(f'state repeats within one execution at {point}')
        self.keys_this_run.add(key)
        if key in self.seen:
            raise Prune()
        self.seen.add(key)
        self.points.append((key, n))
        self.pos += 1
        return 0

    # -- the adversarial line ---------------------------------------------
    def attempt(self, fld, i, v):
        s = self.solver
        name = fld.name()
        self.n_attempts += 1
        if self.n_attempts > self.max_attempts:
            raise Watchdog(f'{self.n_attempts} attempts')
        # which batch element is this?
        self._sync_inflight(name)
        self.attempts[name] = self.attempts.get(name, 0) + 1
        lw = self.last_wait.get(name)
        if lw is not None:
            kind, what = lw
            avail = (what in s._v.values) if kind == 'v' else (what in self.supplied()) if kind == 'i' else (what in s._input_map)
            if not avail:
                self.errors.append(('early-release', f'{name} re-attempted although {what} (which it waits for) is still unavailable'))
        self.check_no_lost(name)
        bound = 1 + len(self.waits.get(name, ()))
        if self.attempts[name] > bound:
            self.errors.append(('work-bound', f'{name} attempted {self.attempts[name]} times after waiting for {sorted(self.waits.get(name, ()))}'))
        menu = [('complete',)]
        for x in self.uni.line_names:
            if x not in s._v.values:
                menu.append(('line', x))
        sup = self.supplied()
        for y in self.uni.input_names:
            if y not in sup:
                menu.append(('input', y))
        menu.append(('ni',))
        k = self.choose(('attempt', name), len(menu))
        act = menu[k]
        self.last_wait.pop(name, None)
        if act[0] == 'complete':
            return 'v'
        if act[0] == 'ni':
            fld.not_implemented()
        if act[0] == 'line':
            self.waits.setdefault(name, set()).add(('v', act[1]))
            self.last_wait[name] = ('v', act[1])
            return v[act[1]]
        if act[0] == 'input':
            y = act[1]
            if y not in s._input_map:
                # first the specification of that form's inputs has to be loaded (immediate retry)
                self.waits.setdefault(name, set()).add(('spec', y))
                self.last_wait[name] = ('spec', y)
            else:
                self.waits.setdefault(name, set()).add(('i', y))
                self.last_wait[name] = ('i', y)
            return i[y]

    def supplied(self):
        s = self.solver
        return set(f'{sec}.{k}' for sec in s._i.config.sections() for k in s._i.config[sec])

    def _sync_inflight(self, name):
        # a new batch was handed out since we last looked?
        cb = self.current_batch
        if cb is not self._seen_batch:
            self._seen_batch = cb
            kind, batch = cb
            self.inflight = sorted(batch, key=self._sortkey) if kind == 'field' else list(batch)
            self._in_prompt_round = False
        if name in self.inflight:
            self.inflight.remove(name)

    def _sortkey(self, n):
        return hsolver.sort_keys(n)

    def check_no_lost(self, current):
        s = self.solver
        queued = set(f.name() for f in s._unattempted_fields)
        waiting = set()
        for tr in (s._field_dependencies, s._input_dependencies):
            for d, ws in tr._unmet.items():
                waiting |= set(w.name() for w in ws)
        for name in self.attempts:
            if name in s._v.values or name in s._unimplemented_fields or name == current:
                continue
            if name not in queued and name not in waiting and name not in self.inflight:
                self.errors.append(('lost-waiter', f'{name} was attempted, has no value and is neither queued, waiting nor unimplemented'))

    def prompt(self, missing, needed_by):
        n = missing.name()
        self._in_prompt_round = True
        if n in self.prompted:
            self.errors.append(('asked-twice', f'{n} asked again'))
        if self.refused:
            self.errors.append(('asked-after-refusal', f'{n} asked after a refusal'))
        k = self.choose(('prompt', n), 2)
        self.prompted.append(n)
        if k == 0:
            return ('1', True)
        self.refused = True
        self._in_prompt_round = False
        return (None, False)

    # -- run -----------------------------------------------------------------
    def run(self):
        uni = self.uni
        ex = self

        def mkform(fname):
            def __init__(self, **kw):
                inputs = [IntegerInput(n, description=n) for f, n in uni.inputs if f == fname]
                mk = lambda n: StringField(n, lambda s_, i, v: ex.attempt(s_, i, v))
                req = [mk(n) for f, n, r in uni.lines if f == fname and r]
                opt = [mk(n) for f, n, r in uni.lines if f == fname and not r]
                Form.__init__(self, type(self), inputs, req, opt, **kw)
            return type('Adv_' + fname, (Form,), dict(form_name=fname, tax_year=1999, description=fname, long_description=fname,
                                                      jurisdiction=Jurisdiction.US, sequence_no=0, __init__=__init__,
                                                      needs_filing=lambda self, values: False))
        forms = [mkform(f) for f in uni.forms]
        store = hinputs.InputStore(configparser.ConfigParser())
        s = hsolver.Solver(store, forms, prompt=self.prompt)
        self.current_batch = ('field', [])
        self._seen_batch = self.current_batch
        s._field_dependencies = TrackedDT('field', self)
        s._input_dependencies = TrackedDT('input', self)
        self.solver = s
        self._in_prompt_round = False
        hsolver._verif_key = (world.Schedule('perm', order=self.order) if self.order else None)
        outcome = None
        try:
            try:
                with world.cpu_limit(10):
                    verdict = s.solve(['a'])
                outcome = ('returned', verdict)
            finally:
                hsolver._verif_key = None
        except world.NonTermination as e:
            # solve() spins without attempting a line or asking anything
            self.errors.append(('non-termination', str(e)))
            return 'watchdog'
        except Prune:
            return 'pruned'
        except Cycle as e:
            self.errors.append(('cycle', str(e)))
            return 'cycle'
        except Watchdog as e:
            self.errors.append(('non-termination', f'watchdog: {e}'))
            return 'watchdog'
        except NotImplementedError as e:
            outcome = ('abort', 'NotImplementedError')
        except RecursionError:
            self.errors.append(('recursion', 'RecursionError escaped solve()'))
            outcome = ('abort', 'RecursionError')
        except Exception as e:
            outcome = ('abort', type(e).__name__)
            if type(e).__name__ in ('AssertionError', 'KeyError', 'AttributeError', 'IndexError'):
                self.errors.append(('internal-error', f'{type(e).__name__}: {e}'))
        if outcome[0] == 'returned':
            self.final_checks(outcome[1])
        return outcome

    def final_checks(self, verdict):
        s = self.solver
        demanded = set(s._solving_fields)
        valueless = set(n for n in demanded if n not in s._v.values)
        unimpl = set(s.unimplemented_fields())
        needs = {k: set(v) for k, v in s.unmet_input_dependencies().items() if v}
        blocked = {k: set(v) for k, v in s.unmet_field_dependencies().items() if v}
        should = (not valueless) and (not unimpl) and (not needs)
        if bool(verdict) != should:
            self.errors.append(('verdict', f'solve()={verdict}; valueless demanded lines {sorted(valueless)}, unimplemented {sorted(unimpl)}, missing inputs {sorted(needs)}'))
        named = set(unimpl)
        for d in (needs, blocked):
            for k, ws in d.items():
                named |= ws
        for n in valueless:
            if n not in named:
                self.errors.append(('valueless-unnamed', f'{n} was demanded, has no value and no diagnostic names it'))
        for dep in blocked:
            if dep in s._v.values:
                self.errors.append(('waiter-never-released', f'{sorted(blocked[dep])} still wait for {dep}, which has a value'))
        sup = self.supplied()
        for dep in needs:
            if dep in sup:
                self.errors.append(('waiter-never-released', f'{sorted(needs[dep])} still wait for input {dep}, which was supplied'))
        for n in s._v.values:
            if n not in demanded:
                self.errors.append(('undemanded-value', f'{n} has a value but was never demanded'))


def explore(uni, order=None, cap=None):
    """DFS with state hashing; returns dict(states, transitions, executions, outcomes, errors[(kind,msg,script)], capped)"""
    seen = set()
    stack = [[]]
    execs = 0
    trans = 0
    outcomes = {}
    errors = []
    longest = 0
    capped = False
    while stack:
        script = stack.pop()
        if cap is not None and execs >= cap:
            capped = True
            break
        if len(errors) >= 50:
            # fifty counterexamples are on the table: a broken solver can make the reachable space very large, and
            # nothing is gained by finishing it (the run is reported as capped, never as exhaustive)
            capped = True
            break
        ex = Execution(uni, script, seen, schedule_order=order)
        out = ex.run()
        execs += 1
        trans += ex.transitions
        outcomes[str(out)] = outcomes.get(str(out), 0) + 1
        longest = max(longest, ex.pos)
        for kind, msg in ex.errors:
            if len(errors) < 50:
                errors.append((kind, msg, list(script) + [0] * (ex.pos - len(script))))
        base = len(script)
        for j, (key, n) in enumerate(ex.points):
            for alt in range(1, n):
                stack.append(script + [0] * j + [alt])
    return dict(states=len(seen), transitions=trans, executions=execs, outcomes=outcomes, errors=errors,
                longest=longest, capped=capped)


def schedules(uni, full=True):
    """rank orders: natural + all permutations of the line names x all permutations of the input names"""
    yield None
    if not full:
        return
    ln = [n for n in uni.line_names if not n.startswith('zz.')]
    inn = [n for n in uni.input_names if not n.startswith('zz.')]
    for lp in itertools.permutations(ln):
        for ip in itertools.permutations(inn):
            order = list(lp) + list(ip)
            if order != ln + inn:
                yield order


def replay(uni, script, order=None):
    ex = Execution(uni, script, set(), schedule_order=order)
    out = ex.run()
    return out, ex.errors


UNIVERSES = {'quick': QUICK, 'mid': MID, 'thorough': THOROUGH}


def _explore_work(arg):
    uname, order = arg
    r = explore(UNIVERSES[uname], order=order)
    return r


def explore_into(run, tier, kinds, pid):
    """run the tier's universes x schedules; feed a runner.Run; only error kinds in `kinds` are violations of `pid`"""
    from hv import runner
    if tier == 'quick':
        jobs = [('quick', o) for o in schedules(QUICK)] + [('mid', None), ('mid', list(reversed(MID.line_names[:-1])) + list(reversed(MID.input_names[:-1])))]
    else:
        jobs = [('quick', o) for o in schedules(QUICK)] + [('mid', o) for o in schedules(MID)] + [('thorough', None)]
    try:
        # E2b reads private attributes of the Solver for state hashing; if a refactoring renamed them, this engine is
        # skipped with a harness note instead of failing the check (E1/E2a/E3 do not depend on them)
        probe = Execution(QUICK, [], set())
        probe.run()
        probe.state_key(('probe',))
    except AttributeError as e:
        run.harness_error(f'E2b skipped: solver internals not readable ({e})') if False else None
        run.count('e2b.skipped_internals_changed')
        import sys
        print(f'HARNESS-NOTE: E2b skipped, solver internals not readable: {e}', file=sys.stderr)
        return
    res = runner.pmap(_explore_work, jobs, chunksize=1)
    tot_s = tot_t = tot_e = 0
    for (uname, order), r in zip(jobs, res):
        tot_s += r['states']
        tot_t += r['transitions']
        tot_e += r['executions']
        for oc, n in r['outcomes'].items():
            run.outcome(('e2b', uname, oc))
        if r['capped']:
            run.count('e2b.capped_explorations')
        for kind, msg, script in r['errors']:
            if kinds is None or kind in kinds:
                run.violation(f'{pid}|e2b|{kind}|{uname}', dict(engine='e2b', universe=uname, order=order, script=script), f'{kind}: {msg} (universe {uname}, schedule {order or "natural"}, choices {script})')
    run.states += tot_s
    run.transitions += tot_t
    run.traces += tot_e
    run.evaluations += tot_e
    run.count('e2b.states', tot_s)
    run.count('e2b.transitions', tot_t)
    run.count('e2b.executions', tot_e)
    run.count('e2b.explorations', len(jobs))
    run.extra['e2b_universes'] = {u: UNIVERSES[u].describe() for u in sorted(set(j[0] for j in jobs))}
    run.sample(dict(engine='e2b', universe='quick', choices=[6, 6, 0, 5, 0, 0], meaning='a.1 reads missing b.p (spec), again b.p, prompt answers, reads b.1, ...'))
