"""E3: prompt-tree exploration of real returns.

The prompt callback is the environment.  A run starts from an empty input file;
every input the solver asks for is answered from the current assignment
(deviations), else from the base policy.  Children of a run: change one more
asked input to another member of its alphabet.  Deviation-bounded BFS."""
import fnmatch
import hashlib
import json

import hv
from hv import world, runner
from habutax import inputs as hi
from habutax.forms import available_forms

ADV_TEXT = "Ann (Lee) O'Neil \\ Jr"
ADV_TEXT2 = "#4B ; rear = 5 : [x]"
ADV_TEXT3 = "50% (net)"
ADV_TEXT4 = "100%% organic (50%%)"        # escaped percent signs: what an INI file holds for the text 100% organic (50%)


# --------------------------------------------------------------------------
# base policies
def default_answer(inp):
    b = inp.base_name()
    if isinstance(inp, hi.EnumInput):
        if inp.allow_empty:
            return ''
        return list(inp.enum.__members__)[0]
    if isinstance(inp, hi.BooleanInput):
        return 'no'
    if isinstance(inp, hi.IntegerInput):
        return '0'
    if isinstance(inp, hi.FloatInput):
        return '0'
    if isinstance(inp, hi.SSNInput):
        return '123-45-6789'
    if isinstance(inp, hi.RegexInput):
        return '011000015' if 'routing' in b else '12345'
    return 'x'


def dense_amount(name):
    """a distinct non-zero amount derived from the name (base B7)"""
    h = int(hashlib.sha1(name.encode()).hexdigest()[:6], 16)
    return f'{100 + (h % 90000) / 100:.2f}'


class Base(object):
    def __init__(self, name, requested, over, dense=False, years=(2021, 2022, 2023), per_year=None):
        self.name, self.requested, self.over, self.dense, self.years = name, requested, over, dense, years
        self.per_year = per_year or {}
        self._exact = {k: v for k, v in over.items() if '*' not in k}
        self._pat = [(k, v) for k, v in over.items() if '*' in k]

    def for_year(self, year):
        if year in self.per_year:
            o = dict(self.over)
            o.update(self.per_year[year])
            return Base(self.name, self.requested, o, self.dense, self.years)
        return self

    def answer(self, inp, name=None):
        n = name or inp.name()
        if n in self._exact:
            return self._exact[n]
        for p, v in self._pat:
            if fnmatch.fnmatchcase(n, p):
                return v
        if self.dense and isinstance(inp, hi.FloatInput):
            return dense_amount(n)
        return default_answer(inp)


W2 = {'1040.number_w-2': '1', 'w-2:0.box_1': '60000', 'w-2:0.box_2': '7000', 'w-2:0.box_3': '60000',
      'w-2:0.box_4': '3720', 'w-2:0.box_5': '60000', 'w-2:0.box_6': '870', 'w-2:0.box_15': 'NC',
      'w-2:0.box_16': '60000', 'w-2:0.box_17': '2500'}

BASES = [
    Base('B0-single-wage', ['1040'], dict(W2)),
    Base('B1-mfj-kids-itemize', ['1040'], {
        '1040.filing_status': 'MarriedFilingJointly', '1040.number_w-2': '2',
        'w-2:0.box_1': '82000', 'w-2:0.box_2': '9000', 'w-2:0.box_5': '82000', 'w-2:0.box_17': '3100',
        'w-2:1.box_1': '41000.50', 'w-2:1.box_2': '3500', 'w-2:1.box_5': '41000.50', 'w-2:1.belongs_to': 'spouse',
        'w-2:1.box_17': '1500',
        '1040.number_dependents': '2', '1040.dependent_0_ctc': 'yes', '1040.dependent_1_ctc': 'yes',
        '1040_s8812.number_under_17': '2',
        '1040.itemize': 'yes', '1040.number_1098': '1', '1098:0.box_1': '14000', '1098:0.box_10': '2500',
        '1040_sa.medical_dental_expenses': '15000', '1040_sa.state_local_real_estate_taxes': '4200',
        '1040_sa.state_local_personal_property_taxes': '300', '1040_sa.charitable_cash_check': '3500',
        '1040_sa.charitable_other_than_cash_check': '250',
    }, per_year={2021: {'1040_s8812.number_under_18': '2', '1040_s8812.number_under_6': '1', '1040_s8812.principal_abode_us': 'yes',
                        '1040_s8812.number_children_letter': '2', '1040_s8812.advance_ctc_payments': '3000'}}),
    Base('B2-investor', ['1040'], {
        '1040.number_w-2': '1', 'w-2:0.box_1': '70000', 'w-2:0.box_2': '9000', 'w-2:0.box_5': '70000',
        '1040.number_1099-int': '2', '1099-int:0.box_1': '1800', '1099-int:0.box_3': '120', '1099-int:0.box_4': '15',
        '1099-int:0.box_6': '12', '1099-int:0.box_8': '75', '1099-int:0.payer': 'First Bank',
        '1099-int:1.box_1': '230.40', '1099-int:1.payer': 'Second Bank',
        '1040.number_1099-div': '1', '1099-div:0.payer': 'Broker', '1099-div:0.box_1a': '2600', '1099-div:0.box_1b': '1900',
        '1099-div:0.box_2a': '850', '1099-div:0.box_4': '20', '1099-div:0.box_5': '140', '1099-div:0.box_7': '33',
    }),
    Base('B3-retiree', ['1040'], {
        '1040.number_1099-r': '2', '1099-r:0.box_1': '18000', '1099-r:0.box_2a': '18000', '1099-r:0.box_4': '1800',
        '1099-r:0.box_7_ira_sep_simple': 'yes', '1099-r:0.belongs_to': 'taxpayer',
        '1099-r:1.box_1': '42000', '1099-r:1.box_2a': '39000', '1099-r:1.box_4': '4200',
        '1040.ira_exception2_you': 'yes', '8606:you.part_1_needed': 'yes', '8606:you.nondeductible_contributions': '2000',
        '8606:you.traditional_basis': '9000', '8606:you.distribution_or_roth_conversion': 'yes',
        '8606:you.year_end_value_non_roth': '80000', '8606:you.distributions_2023': '18000',
        '8606:you.distributions_2022': '18000', '8606:you.distributions_2021': '18000',
        '1040.estimated_tax_payments': '2500', '1040.apply_to_estimated_tax': '300',
        '1040.number_w-2': '1', 'w-2:0.box_1': '20000', 'w-2:0.box_2': '1000', 'w-2:0.box_5': '20000',
    }),
    Base('B4-schedule1', ['1040'], {
        '1040.filing_status': 'MarriedFilingJointly', '1040.number_w-2': '1', 'w-2:0.box_1': '95000', 'w-2:0.box_2': '11000',
        'w-2:0.box_5': '95000', 'w-2:0.box_12a_code': 'W', 'w-2:0.box_12a_value': '1200',
        '1040.schedule_1_additional_income': 'yes', '1040.schedule_1_income_adjustments': 'yes',
        '1040_s1.alimony_received': '2400', '1040_s1.alimony_received_date': '01/02/2015', '1040_s1.unemployment_income': '3100',
        '1040_s1.educator_expenses': '250', '1040_s1.hsa_contribution_you': 'yes', '1040_s1.hsa_contribution_spouse': 'yes',
        '8889:you.hsa_contributions': '1500', '8889:you.employer_contribution': '1200', '8889:spouse.hsa_contributions': '900',
        '8889:*.hsa_full_year': 'yes', '8889:*.age_under_55': 'yes',
        '1040.number_1099-g': '1', '1099-g:0.box_2': '410', '1040.number_1098': '1', '1098:0.box_1': '5000', '1098:0.box_4': '130',
        '1040_s1.student_loan_interest': 'no',
    }),
    Base('B5-high-mfs', ['1040'], {
        '1040.filing_status': 'MarriedFilingSeparately', '1040.number_w-2': '1', 'w-2:0.box_1': '240000', 'w-2:0.box_2': '62000',
        'w-2:0.box_3': '160200', 'w-2:0.box_5': '245000', 'w-2:0.box_6': '3970',
    }, per_year={2021: {'w-2:0.box_1': '190000', 'w-2:0.box_5': '195000', 'w-2:0.box_2': '48000'},
                 2023: {'w-2:0.box_1': '200000', 'w-2:0.box_5': '205000', 'w-2:0.box_2': '50000'}}),
    Base('B5-high-mfj', ['1040'], {
        '1040.filing_status': 'MarriedFilingJointly', '1040.number_w-2': '2', 'w-2:0.box_1': '210000', 'w-2:0.box_2': '40000',
        'w-2:0.box_5': '215000', 'w-2:0.box_6': '3300', 'w-2:1.box_1': '80000', 'w-2:1.box_2': '9000', 'w-2:1.box_5': '80000',
        'w-2:1.box_6': '1160', 'w-2:1.belongs_to': 'spouse',
    }, per_year={2022: {'w-2:0.box_1': '205000', 'w-2:0.box_5': '207000', 'w-2:1.box_1': '50000', 'w-2:1.box_5': '50000'}}),
    Base('B6-nc', ['1040', 'nc_d-400'], dict(W2, **{
        '1040.state': 'NC', 'nc_d-400.county': 'Wake', 'nc_d-400.nc_residents': 'yes',
        '1040.number_dependents': '1', '1040.dependent_0_ctc': 'yes', '1040_s8812.number_under_17': '1',
        'nc_d-400.additions_to_agi': 'yes', 'nc_d-400.deductions_from_agi': 'yes',
        'nc_d-400_ss.interest_income_not_nc': '310', 'nc_d-400_ss.state_local_refund': '0',
        'nc_d-400_ss.interest_us_obligations': '120',
        'nc_d-400_consumer_use_tax_wkst.out_of_state_purchases': '900', 'nc_d-400_consumer_use_tax_wkst.county_tax_pct': '2',
        'nc_d-400.estimated_tax': '150', '1040.number_1098': '1', '1098:0.box_1': '3000',
    }), per_year={2021: {'1040_s8812.number_under_18': '1', '1040_s8812.principal_abode_us': 'yes', '1040_s8812.number_children_letter': '1'}}),
    Base('B6-nc-rev', ['nc_d-400', '1040'], dict(W2, **{
        '1040.state': 'NC', 'nc_d-400.county': 'Wake', 'nc_d-400.nc_residents': 'yes',
        '1040.filing_status': 'HeadOfHousehold',
        '1040.number_dependents': '2', '1040.dependent_0_ctc': 'yes', '1040.dependent_1_odc': 'yes', '1040_s8812.number_under_17': '1',
        '1040.number_1098': '1', '1098:0.box_1': '2000',
    }), per_year={2021: {'1040_s8812.number_under_18': '1', '1040_s8812.principal_abode_us': 'yes', '1040_s8812.number_children_letter': '1'}}),
    Base('B8-nc-only', ['nc_d-400'], dict(W2, **{
        '1040.state': 'NC', 'nc_d-400.county': 'Wake', 'nc_d-400.nc_residents': 'yes', '1040.filing_status': 'MarriedFilingJointly',
        '1040.number_1098': '1', '1098:0.box_1': '2500', 'nc_d-400.no_consumer_use_tax': 'yes',
    })),
    Base('B9-low-wage-investor', ['1040'], {
        '1040.number_w-2': '1', 'w-2:0.box_1': '12000', 'w-2:0.box_2': '600', 'w-2:0.box_5': '12000',
        '1040.number_1099-div': '1', '1099-div:0.payer': 'Fund', '1099-div:0.box_1a': '9000', '1099-div:0.box_1b': '9000',
        '1099-div:0.box_2a': '1000', '1099-div:0.box_5': '600',
    }),
    Base('B10-two-w2-requested', ['w-2:0', 'w-2:1'], {
        'w-2:0.box_1': '41000', 'w-2:0.box_2': '4000', 'w-2:1.box_1': '12000.25', 'w-2:1.box_2': '900', 'w-2:1.belongs_to': 'spouse',
    }),
    Base('B11-parent-foreign-dividends', ['1040'], {
        '1040.number_w-2': '1', 'w-2:0.box_1': '100000', 'w-2:0.box_2': '16551.90', 'w-2:0.box_5': '100000',
        '1040.number_dependents': '1', '1040.dependent_0_ctc': 'yes', '1040_s8812.number_under_17': '1',
        '1040.number_1099-div': '1', '1099-div:0.box_1a': '1000', '1099-div:0.box_7': '120', '1099-div:0.payer': 'Fund Co',
    }, per_year={2021: {'1040_s8812.number_under_18': '1', '1040_s8812.principal_abode_us': 'yes', '1040_s8812.number_children_letter': '1'}}),
    Base('B12-near-itemizing', ['1040'], {
        '1040.number_w-2': '1', 'w-2:0.box_1': '90000', 'w-2:0.box_2': '12000', 'w-2:0.box_5': '90000',
        '1040.itemize': 'yes', '1040.number_1098': '1', '1098:0.box_1': '9000', '1040_sa.state_local_real_estate_taxes': '3000',
        '1040.charitable_contributions_std_ded': '300',
    }),
    Base('B13-ira-small-basis', ['1040'], {
        '1040.number_1099-r': '1', '1099-r:0.box_1': '20000', '1099-r:0.box_2a': '20000', '1099-r:0.box_7_ira_sep_simple': 'yes',
        '1099-r:0.belongs_to': 'taxpayer', '1040.ira_exception2_you': 'yes', '8606:you.part_1_needed': 'yes',
        '8606:you.nondeductible_contributions': '400', '8606:you.traditional_basis': '0',
        '8606:you.distribution_or_roth_conversion': 'yes', '8606:you.year_end_value_non_roth': '500000',
        '8606:you.distributions_2023': '20000', '8606:you.distributions_2022': '20000', '8606:you.distributions_2021': '20000',
        '1040.number_w-2': '1', 'w-2:0.box_1': '30000', 'w-2:0.box_2': '2500', 'w-2:0.box_5': '30000',
    }),
    # copies with identical amounts (values forced to collide: anything that de-duplicates or keys by value shows up)
    Base('B14-twin-copies', ['1040'], {
        '1040.filing_status': 'MarriedFilingJointly', '1040.number_w-2': '2', 'w-2:*.box_1': '45000', 'w-2:*.box_2': '5000',
        'w-2:*.box_5': '45000', 'w-2:*.box_17': '2000', 'w-2:1.belongs_to': 'spouse',
        '1040.number_1099-int': '2', '1099-int:*.box_1': '400', '1099-int:*.box_4': '40', '1099-int:*.payer': 'Same Bank',
        '1040.number_1099-div': '2', '1099-div:*.box_1a': '300', '1099-div:*.box_1b': '300', '1099-div:*.box_4': '30', '1099-div:*.payer': 'Same Fund',
    }),
    Base('B15-low-tax-foreign-credit', ['1040'], {
        '1040.number_dependents': '1', '1040.dependent_0_odc': 'yes',
        '1040.number_1099-int': '1', '1099-int:0.box_1': '14000', '1099-int:0.box_6': '250', '1099-int:0.payer': 'Bank',
    }, per_year={2021: {'1040_s8812.principal_abode_us': 'yes'}}),
    Base('B16-mfj-both-ira', ['1040'], {
        '1040.filing_status': 'MarriedFilingJointly', '1040.number_w-2': '1', 'w-2:0.box_1': '50000', 'w-2:0.box_2': '4000', 'w-2:0.box_5': '50000',
        '1040.number_1099-r': '2', '1099-r:*.box_7_ira_sep_simple': 'yes', '1099-r:0.belongs_to': 'taxpayer', '1099-r:1.belongs_to': 'spouse',
        '1099-r:0.box_1': '8000', '1099-r:0.box_2a': '8000', '1099-r:1.box_1': '6000.50', '1099-r:1.box_2a': '6000.50', '1099-r:1.box_4': '600',
    }),
    # declared-unsupported by construction (C09): more payers than Schedule B has rows, the large one last
    Base('B17-fifteen-payers', ['1040'], {
        '1040.number_w-2': '1', 'w-2:0.box_1': '60000', 'w-2:0.box_2': '7000', 'w-2:0.box_5': '60000',
        '1040.number_1099-int': '15', '1099-int:*.box_1': '50', '1099-int:14.box_1': '1000', '1099-int:*.payer': 'Bank',
    }),
    Base('B18-nc-use-tax-records', ['1040', 'nc_d-400'], dict(W2, **{
        '1040.state': 'NC', 'nc_d-400.county': 'Wake', 'nc_d-400.nc_residents': 'yes', '1040.number_1098': '1', '1098:0.box_1': '3000',
        'nc_d-400_consumer_use_tax_wkst.full_records': 'yes', 'nc_d-400_consumer_use_tax_wkst.other_state_sales_tax': '500',
        'nc_d-400_consumer_use_tax_wkst.out_of_state_purchases': '1437', 'nc_d-400_consumer_use_tax_wkst.county_tax_pct': '0.07',
        'nc_d-400_consumer_use_tax_wkst.out_of_state_purchases_pre_oct': '1004', 'nc_d-400_consumer_use_tax_wkst.county_tax_pct_pre_oct': '0.07',
        'nc_d-400_consumer_use_tax_wkst.out_of_state_purchases_post_oct': '433', 'nc_d-400_consumer_use_tax_wkst.county_tax_pct_post_oct': '0.07',
        # N.C. tax withheld on statements other than the W-2
        '1040.number_1099-int': '1', '1099-int:0.box_1': '900', '1099-int:0.box_15_1': 'NC', '1099-int:0.box_17_1': '31', '1099-int:0.payer': 'Bank',
        '1040.number_1099-g': '1', '1099-g:0.box_1': '1200', '1099-g:0.box_10a_1': 'NC', '1099-g:0.box_11_1': '48',
        '1040.schedule_1_additional_income': 'yes', '1040_s1.unemployment_income': '1200',
    })),
    Base('B20-three-ira-copies', ['1040'], {
        '1040.filing_status': 'MarriedFilingJointly', '1040.number_w-2': '1', 'w-2:0.box_1': '40000', 'w-2:0.box_2': '3000', 'w-2:0.box_5': '40000',
        '1040.number_1099-r': '3', '1099-r:*.box_7_ira_sep_simple': 'yes',
        '1099-r:0.belongs_to': 'taxpayer', '1099-r:1.belongs_to': 'spouse', '1099-r:2.belongs_to': 'taxpayer',
        '1099-r:0.box_1': '5000', '1099-r:0.box_2a': '5000', '1099-r:1.box_1': '3000', '1099-r:1.box_2a': '3000',
        '1099-r:2.box_1': '2000', '1099-r:2.box_2a': '2000', '1099-r:2.box_4': '150',
    }),
    Base('B19-nc-itemized-equals-standard', ['1040', 'nc_d-400'], dict(W2, **{
        '1040.state': 'NC', 'nc_d-400.county': 'Wake', 'nc_d-400.nc_residents': 'yes', 'nc_d-400.try_itemizing': 'yes',
        '1040.number_1098': '1', '1098:0.box_1': '12750', 'nc_d-400.no_consumer_use_tax': 'yes',
    }), per_year={2021: {'1098:0.box_1': '10750'}}),
    # two-digit copy numbers (w-2:10, 1099-int:11): natural sort, instance parsing, Schedule B rows 11 and 12
    Base('B21-twelve-copies', ['1040'], dict(
        [('1040.number_w-2', '12'), ('1040.number_1099-int', '12')]
        + [(f'w-2:{n}.box_1', f'{4000 + n * 137.25:.2f}') for n in range(12)]
        + [(f'w-2:{n}.box_2', str(300 + n)) for n in range(12)]
        + [(f'w-2:{n}.box_5', f'{4000 + n * 137.25:.2f}') for n in range(12)]
        + [(f'1099-int:{n}.box_1', str(150 + 10 * n)) for n in range(12)]
        + [(f'1099-int:{n}.payer', f'Bank {n}') for n in range(12)]
        + [('1099-int:11.box_4', '12')])),
    # declared-unsupported by construction (C09): foreign tax on an interest and on a dividend statement, each within
    # the Form 1116 exemption of a single filer (300), together above it
    Base('B23-split-foreign-tax', ['1040'], dict(W2, **{
        '1040.number_1099-int': '1', '1099-int:0.box_1': '2000', '1099-int:0.box_6': '200', '1099-int:0.payer': 'Bank',
        '1040.number_1099-div': '1', '1099-div:0.box_1a': '2500', '1099-div:0.box_1b': '2500', '1099-div:0.box_7': '200', '1099-div:0.payer': 'Fund',
    })),
    # amounts that are exact binary ties at the cent (x.125, x.375, x.625, x.875) on a return with whole-dollar N.C. lines
    Base('B22-nc-binary-ties', ['1040', 'nc_d-400'], dict(W2, **{
        '1040.state': 'NC', 'nc_d-400.county': 'Wake', 'nc_d-400.nc_residents': 'yes', 'nc_d-400.no_consumer_use_tax': 'yes',
        'w-2:0.box_1': '60000.625', 'w-2:0.box_2': '7000.375', 'w-2:0.box_17': '2500.125', 'w-2:0.box_16': '60000.875',
        '1040.number_1099-int': '1', '1099-int:0.box_1': '310.125', '1099-int:0.box_4': '31.625', '1099-int:0.payer': 'Bank',
        '1040.number_1098': '1', '1098:0.box_1': '3000.375',
    })),
    # N.C. tax due (little withheld) by a filer who would have a refund applied / contributed if there were one
    Base('B24-nc-tax-due', ['1040', 'nc_d-400'], dict(W2, **{
        '1040.state': 'NC', 'nc_d-400.county': 'Wake', 'nc_d-400.nc_residents': 'yes', 'nc_d-400.no_consumer_use_tax': 'yes',
        'w-2:0.box_17': '500', '1040.number_1098': '1', '1098:0.box_1': '3000',
        'nc_d-400.2024_estimated_income_tax': '50', 'nc_d-400.2023_estimated_income_tax': '50', 'nc_d-400.2022_estimated_income_tax': '50',
        'nc_d-400.nc_education_endowment': '25', 'nc_d-400.nc_nongame_endangered_wildlife': '10',
        '1040.apply_to_estimated_tax': '100',
    })),
    # Form 8606 with Part II only (a Roth conversion): Parts I and III are mapped to boxes but never computed
    Base('B25-roth-conversion-only', ['1040'], dict(W2, **{
        '1040.number_1099-r': '1', '1099-r:0.box_1': '6500', '1099-r:0.box_2a': '6500', '1099-r:0.box_7_ira_sep_simple': 'yes',
        '1099-r:0.box_2b_taxable_not_determined': 'yes', '1099-r:0.belongs_to': 'taxpayer',
        '1040.ira_exception2_you': 'yes', '8606:you.part_1_needed': 'no', '8606:you.part_2_needed': 'yes', '8606:you.part_3_needed': 'no',
        '8606:you.net_converted': '6500', '8606:you.converted_cost_basis': '6000',
    })),
    # Forms 8606 and 8889 for the same person (lines with the same base names - name, ssn - in two per-person forms)
    Base('B26-ira-and-hsa', ['1040'], dict(W2, **{
        '1040.number_1099-r': '1', '1099-r:0.box_1': '6500', '1099-r:0.box_2a': '6500', '1099-r:0.box_7_ira_sep_simple': 'yes',
        '1099-r:0.box_2b_taxable_not_determined': 'yes', '1099-r:0.belongs_to': 'taxpayer',
        '1040.ira_exception2_you': 'yes', '8606:you.part_1_needed': 'no', '8606:you.part_2_needed': 'yes', '8606:you.part_3_needed': 'no',
        '8606:you.net_converted': '6500', '8606:you.converted_cost_basis': '6000',
        '1040.schedule_1_income_adjustments': 'yes', '1040_s1.hsa_contribution_you': 'yes', '1040_s1.student_loan_interest': 'no',
        '8889:you.hsa_contributions': '1500', '8889:you.employer_contribution': '0', '8889:*.hsa_full_year': 'yes', '8889:*.age_under_55': 'yes',
    })),
    Base('B7-dense', ['1040'], {
        '1040.number_w-2': '2', 'w-2:1.belongs_to': 'spouse', '1040.filing_status': 'MarriedFilingJointly',
        '1040.number_1099-int': '1', '1040.number_1099-div': '1', '1040.number_1099-g': '1', '1040.number_1098': '1',
        '1040.schedule_1_additional_income': 'yes', '1040.schedule_1_income_adjustments': 'yes',
        'w-2:0.box_1': '61234.56', 'w-2:1.box_1': '33210.98', 'w-2:*.box_5': '50000',
        '1040.itemize': 'yes', '1040.number_dependents': '2', '1040.dependent_0_ctc': 'yes', '1040.dependent_1_odc': 'yes',
        '1040_s8812.number_under_17': '1', '1040.tax_penalty': '0',
        '1040_s1.traditional_ira_deduction': '0', '1040_sa.other_itemized': '0', '1099-div:0.box_5': '0',
        '1099-div:*.box_7': '11.5', '1099-int:*.box_6': '9.25',
        '1040_s1.educator_expenses': '275.50', '1040_s1.other_income_amount': '0', '1040_s1.other_adjustments_amount': '0',
    }, dense=True, per_year={2021: {'1040_s8812.number_under_18': '1', '1040_s8812.principal_abode_us': 'yes', '1040_s8812.number_children_letter': '1'}}),
]


EXPECT_REFUSED = ('B17-fifteen-payers', 'B23-split-foreign-tax')     # these base returns must never solve (C09)
QUICK_BASES = ('B0-single-wage', 'B2-investor', 'B4-schedule1', 'B6-nc', 'B7-dense')


def bases_for(year):
    return [b.for_year(year) for b in BASES if year in b.years]


# --------------------------------------------------------------------------
# alphabets
MONEY = ['0', '320.55', '1650', '12000', '52000.50', '260000', '1100000']
MONEY_PAIR = ['0', '52000.50']


def alphabet(inp, pair=False):
    b = inp.base_name()
    if isinstance(inp, hi.EnumInput):
        members = list(inp.enum.__members__)
        if 'NC' in members and len(members) > 8:   # states
            out = ['NC', members[0]]
        elif len(members) > 8:    # W-2 box 12 codes and the like
            out = [m for m in ('D', 'W', 'DD') if m in members] or members[:3]
        else:
            out = members
        if inp.allow_empty:
            out = out + ['']
        return [x for x in out if inp.valid(x)]
    if isinstance(inp, hi.BooleanInput):
        return ['no', 'yes']
    if isinstance(inp, hi.IntegerInput):
        if b.startswith('number_'):
            out = ['0', '1', '2', '3']
            if b in ('number_1099-int', 'number_1099-div') and not pair:
                out.append('15')
            return out
        return ['0', '1', '3']
    if isinstance(inp, hi.FloatInput):
        return MONEY_PAIR if pair else MONEY
    if isinstance(inp, (hi.SSNInput, hi.RegexInput)):
        return []
    if isinstance(inp, hi.StringInput):
        return ['x', ADV_TEXT, ADV_TEXT2, ADV_TEXT3, ADV_TEXT4] if not pair else []
    return []


# --------------------------------------------------------------------------
KINDS = {}     # (year, input name) -> 'S' structural (bool/count/enum) | 'M' money/text


def input_kind(year, name):
    k = (year, name)
    if k not in KINDS:
        from habutax import form as hform
        sec, base = name.split('.')
        fn, inst = hform.name_and_instance(sec)
        C = {c.form_name: c for c in available_forms[year]}[fn]
        for i in C(instance=inst).inputs():
            KINDS[(year, i.name())] = 'S' if isinstance(i, (hi.BooleanInput, hi.IntegerInput, hi.EnumInput)) else 'M'
    return KINDS.get(k, 'M')


class Node(object):
    """result summary handed back from a worker"""
    __slots__ = ('assign', 'asked', 'oclass', 'viols', 'counters', 'extra')


def run_return(year, base, assign, schedule=None, keep_solver=False, instrument=True, requested=None,
               rename=None, bump=None):
    """one execution; returns (Result, asked) where asked = [(name, answer, alternatives)]
    rename: dict form-instance -> form-instance whose answers it receives (instance renumbering)
    bump: dict input name -> amount added to its (numeric) answer"""
    asked = []
    pair = len(assign) >= 1

    def answer(missing, needed_by):
        n = missing.name()
        src = n
        if rename:
            sec, key = n.split('.')
            if sec in rename:
                src = f'{rename[sec]}.{key}'
        if src in assign:
            a = assign[src]
        else:
            a = base.answer(missing, name=src)
        if bump and n in bump:
            a = repr(round(float(a or 0) + bump[n], 2))
        alts = [x for x in alphabet(missing, pair=pair) if x != a] if n not in assign else []
        asked.append((n, a, alts))
        return a
    r = world.run_solve(available_forms[year], requested or base.requested, {}, answer=answer,
                        schedule=schedule, keep_solver=keep_solver, instrument=instrument)
    return r, asked


def explore(year, base, depth, pid, pair_filter=None, cap=None):
    """deviation-bounded BFS.  The monitor of property `pid` (hv.e3mon) is evaluated on every node.
    returns dict(nodes, transitions, outcome classes, violations [(kind,msg,case)], counters)."""
    stats = dict(nodes=0, transitions=0, outcomes={}, viols=[], counters={}, levels=[], capped=False, samples=[])
    level = [{}]
    seen = {frozenset()}
    for d in range(depth + 1):
        items = [(year, base, a, pid) for a in level]
        res = runner.pmap(_node, items)
        nxt = []
        for a, (asked, oclass, viols, counters) in zip(level, res):
            stats['nodes'] += 1
            stats['outcomes'][oclass] = stats['outcomes'].get(oclass, 0) + 1
            for k, v in counters.items():
                stats['counters'][k] = stats['counters'].get(k, 0) + v
            for kind, msg, extra in viols:
                if len(stats['viols']) < 400:
                    case = dict(engine='e3', year=year, base=base.name, assign=a)
                    case.update(extra or {})
                    stats['viols'].append((kind, msg, case))
            if d < depth:
                for n, ans, alts in asked:
                    if n in a:
                        continue
                    for alt in alts:
                        if pair_filter is not None and d >= 1 and not pair_filter(n, alt, a):
                            continue
                        child = dict(a)
                        child[n] = alt
                        key = frozenset(child.items())
                        stats['transitions'] += 1
                        if key not in seen:
                            seen.add(key)
                            nxt.append(child)
        stats['levels'].append(len(level))
        if level:
            stats['samples'].append(level[len(level) // 2])
        level = nxt
        if cap is not None and len(level) > cap:
            stats['capped'] = True
            level = level[:cap]
    return stats


def _node(arg):
    from hv import e3mon
    year, base, assign, pid = arg
    r, asked = run_return(year, base, assign, keep_solver=True)
    viols, counters = e3mon.monitor(pid, year, base, assign, r, asked)
    r.solver = None
    return asked, r.outcome_class(), viols, counters


def base_by_name(name, year):
    for b in bases_for(year):
        if b.name == name:
            return b
    raise KeyError(name)


def structural_pairs(year):
    """second deviations: at least one of the two deviating inputs is structural (boolean, count, enumeration);
    money x money and text x text pairs are left out (stated bound of the thorough tier)"""
    def f(name, alt, assign):
        if input_kind(year, name) == 'S':
            return True
        return any(input_kind(year, n) == 'S' for n in assign)
    return f


def explore_all(run, pid, tier, years=(2021, 2022, 2023), depth_quick=1, depth_thorough=2, bases=None, quick_bases=None,
                deep_quick=('B0-single-wage',), finding_key=None, deep_thorough=None):
    """explore every base of every year; feeds a runner.Run"""
    for year in years:
        for base in bases_for(year):
            if bases is not None and base.name not in bases:
                continue
            if tier == 'thorough':
                depth = depth_thorough
                if deep_thorough is not None:
                    if depth >= 2 and (year, base.name) not in deep_thorough:
                        depth = 1  # the properties whose monitor re-solves every node several times state a smaller set
                elif depth >= 2 and bases is None and not (base.name == 'B0-single-wage' or (year == 2023 and base.name in ('B2-investor', 'B6-nc'))):
                    depth = 1      # two deviations on B0 (all years) and on B2 / B6 of 2023; one elsewhere
            else:
                depth = depth_quick
                if bases is None and base.name not in (quick_bases or QUICK_BASES):
                    depth = 0      # the other bases contribute their base return only in the quick tier
            st = explore(year, base, depth, pid, pair_filter=structural_pairs(year) if depth >= 2 else None)
            run.states += st['nodes']
            run.transitions += st['transitions']
            run.traces += st['nodes']
            run.evaluations += st['counters'].get('solves', st['nodes'])
            for oc, n in st['outcomes'].items():
                run.outcome(('e3', year, base.name, oc))
                run.count(f'e3_outcome:{oc}', n)
            run.merge_counts({('e3.' + k): v for k, v in st['counters'].items()})
            run.count('e3.returns', st['nodes'])
            run.extra.setdefault('e3_bases', {})[f'{year}/{base.name}'] = dict(depth=depth, levels=st['levels'], capped=st['capped'],
                                                                               outcomes=st['outcomes'])
            if st['samples']:
                run.sample(dict(engine='e3', year=year, base=base.name, deviations=st['samples'][-1]), cap=8)
            for kind, msg, case in st['viols']:
                if finding_key is not None:
                    key = finding_key(kind, msg, case)
                else:
                    key = f'{pid}|e3|{year}|{kind}|{msg[:80]}'
                run.violation(key, case, msg)
