"""Monitors evaluated on every node of the E3 prompt-tree exploration, per property."""
import hv
from hv import world, refeval, monitors, e3
from habutax.forms import available_forms


def _variants(year, base, assign, r, kinds):
    """re-run the same return under other schedules / with all inputs in the file"""
    out = []
    fl = available_forms[year]
    for kind in kinds:
        if kind == 'file':
            rr = world.run_solve(fl, base.requested, r.final_inputs, answer=None, schedule=None, keep_solver=True)
        elif kind == 'file-reversed':
            rr = world.run_solve(fl, base.requested, r.final_inputs, answer=None, schedule=None, layout='reversed', keep_solver=True)
        elif kind.startswith('hash'):
            sch = world.Schedule('hash', salt=int(kind[4:]))
            rr, _ = e3.run_return(year, base, assign, schedule=sch, keep_solver=True)
        else:
            sch = world.Schedule(kind)
            rr, _ = e3.run_return(year, base, assign, schedule=sch, keep_solver=True)
        out.append((kind, rr))
    return out


QUICK_SCHEDS = ['reversed', 'linerev', 'hash1']
ALL_SCHEDS = ['reversed', 'formrev', 'linerev', 'hash1', 'hash2', 'hash3', 'hash4']


def _pick(kinds, assign, n):
    """deterministic choice of n variant kinds for a node (rotates with the assignment so that
    over the whole tree every kind is used)"""
    import zlib
    k = zlib.crc32(repr(sorted(assign.items())).encode()) % len(kinds)
    return [kinds[(k + j) % len(kinds)] for j in range(n)]


def monitor(pid, year, base, assign, r, asked):
    fl = available_forms[year]
    viols = []
    cnt = {'solves': 1}

    def add(errs, extra=None):
        for kind, msg in errs:
            viols.append((kind, msg, extra))

    if pid == 'C01':
        errs, ref = monitors.c01(fl, base.requested, r)
        add(errs)
        cnt['ref_evaluations'] = ref.evaluations
        # no-prompt run on an empty file, and a refusing user at prompt k (k = a few positions)
        n = len(asked)
        for k in sorted(set([0, n // 2])):
            if k >= n and k > 0:
                continue
            state = {'n': 0}

            def answer(missing, needed_by, _k=k):
                i = state['n']
                state['n'] += 1
                if i >= _k:
                    return None
                nm = missing.name()
                return assign[nm] if nm in assign else base.answer(missing)
            rr = world.run_solve(fl, base.requested, {}, answer=answer if k > 0 else None)
            cnt['solves'] += 1
            errs, ref2 = monitors.c01(fl, base.requested, rr)
            add(errs, dict(refuse_at=k))
    elif pid == 'C03':
        errs, _ = monitors.c03(fl, r)
        add(errs)
        for kind, rr in _variants(year, base, assign, r, ALL_SCHEDS if not assign else _pick(QUICK_SCHEDS, assign, 1)):
            cnt['solves'] += 1
            errs, _ = monitors.c03(fl, rr)
            add(errs, dict(schedule=kind))
    elif pid == 'C04':
        errs, closure = monitors.c04(fl, base.requested, r)
        add(errs)
        if closure:
            cnt['closure_lines'] = len(closure)
    elif pid == 'C05':
        c0 = r.canon()
        order0 = tuple(a.line for a in r.log)
        for kind, rr in _variants(year, base, assign, r, (ALL_SCHEDS + ['file', 'file-reversed']) if not assign
                                  else _pick(QUICK_SCHEDS, assign, 2) + _pick(['file', 'file-reversed'], assign, 1)):
            cnt['solves'] += 1
            if tuple(a.line for a in rr.log) != order0:
                cnt['reordered_runs'] = cnt.get('reordered_runs', 0) + 1
            if rr.final_inputs != r.final_inputs and rr.exc is None and r.exc is None:
                # a different order may ask a different set of inputs only if outcomes differ anyway
                pass
            if rr.canon() != c0:
                viols.append(('outcome-differs', f'variant {kind}: {_diff(r, rr)}', dict(variant=kind)))
    elif pid == 'C06':
        add(monitors.c06(r))
    elif pid == 'C10':
        if r.exc is not None:
            cls, msg = r.exc
            if cls in ('RecursionError', 'AssertionError', 'AttributeError', 'NameError', 'KeyError', 'UnboundLocalError', 'IndexError'):
                viols.append((f'solve-raised-{cls}', f'solve() raised {cls}: {msg[:120]}', None))
            elif cls == 'NotImplementedError':
                from hv import e4
                if not any(msg == f'Form {a} is not supported.' for a in e4.ABSENT_FORMS):
                    viols.append(('unexpected-unsupported-form', msg, None))
    elif pid == 'C12':
        add(monitors.c12_store(r))
    elif pid == 'C13':
        add(monitors.c13(r, {}))
    return viols, cnt


def _diff(a, b):
    if a.exc or b.exc:
        return f'{a.exc} vs {b.exc}'
    out = []
    if a.verdict != b.verdict:
        out.append(f'verdict {a.verdict} vs {b.verdict}')
    for sec in sorted(set(a.solution) | set(b.solution)):
        x, y = a.solution.get(sec, {}), b.solution.get(sec, {})
        for k in sorted(set(x) | set(y)):
            if x.get(k) != y.get(k):
                out.append(f'{sec}.{k}: {x.get(k)!r} vs {y.get(k)!r}')
    if a.unimpl != b.unimpl:
        out.append(f'unimplemented {sorted(a.unimpl)} vs {sorted(b.unimpl)}')
    if a.need_inputs != b.need_inputs:
        out.append(f'needed inputs {sorted(a.need_inputs)} vs {sorted(b.need_inputs)}')
    if a.blocked != b.blocked:
        out.append(f'blocked differ')
    if a.forms != b.forms:
        out.append(f'forms {a.forms} vs {b.forms}')
    return '; '.join(out[:5])
