"""Monitors evaluated on every node of the E3 prompt-tree exploration, per property."""
import functools
import re
import hv
from hv import world, refeval, monitors, e3
from habutax.forms import available_forms


def _variants(year, base, assign, r, kinds):
    """re-run the same return under other schedules / with all inputs in the file"""
    out = []
    fl = available_forms[year]
    for kind in kinds:
        if kind.startswith('file:'):
            sk = kind[5:]
            sch = world.Schedule('hash', salt=int(sk[4:])) if sk.startswith('hash') else world.Schedule(sk)
            rr = world.run_solve(fl, base.requested, r.final_inputs, answer=None, schedule=sch, keep_solver=True)
        elif kind == 'file':
            rr = world.run_solve(fl, base.requested, r.final_inputs, answer=None, schedule=None, keep_solver=True)
        elif kind == 'file-reversed':
            rr = world.run_solve(fl, base.requested, r.final_inputs, answer=None, schedule=None, layout='reversed', keep_solver=True)
        elif kind.startswith('hash'):
            sch = world.Schedule('hash', salt=int(kind[4:]))
            rr, _ = e3.run_return(year, base, assign, schedule=sch, keep_solver=True)
        else:
            sch = world.Schedule(kind)
            rr, _ = e3.run_return(year, base, assign, schedule=sch, keep_solver=True)
        out.append((kind, rr))
    return out


_FIRST_SEEN = {}
QUICK_SCHEDS = ['reversed', 'linerev', 'hash1']
ALL_SCHEDS = ['reversed', 'formrev', 'linerev', 'hash1', 'hash2', 'hash3', 'hash4']


def _pick(kinds, assign, n):
    """deterministic choice of n variant kinds for a node (rotates with the assignment so that
    over the whole tree every kind is used)"""
    import zlib
    k = zlib.crc32(repr(sorted(assign.items())).encode()) % len(kinds)
    return [kinds[(k + j) % len(kinds)] for j in range(n)]


def monitor(pid, year, base, assign, r, asked):
    fl = available_forms[year]
    viols = []
    cnt = {'solves': 1}

    def add(errs, extra=None):
        for kind, msg in errs:
            viols.append((kind, msg, extra))

    if pid == 'C01':
        errs, ref = monitors.c01(fl, base.requested, r)
        add(errs)
        cnt['ref_evaluations'] = ref.evaluations
        # the CLI's exit text: "Successfully solved!" <=> verdict, and a failure report names everything
        if r.exc is None and (not r.verdict or not assign):
            add(_cli_report(year, base, r))
            cnt['solves'] += 1
        # the real interactive route (habutax.prompt_input with scripted input()) must end where the harness prompt did
        if not assign and r.exc is None:
            add(_cli_prompted(year, base, r))
            cnt['solves'] += 1
        # no-prompt run on an empty file, and a refusing user at prompt k (k = a few positions)
        n = len(asked)
        for k in sorted(set([0, n // 2])):
            if k >= n and k > 0:
                continue
            state = {'n': 0}

            def answer(missing, needed_by, _k=k):
                i = state['n']
                state['n'] += 1
                if i >= _k:
                    return None
                nm = missing.name()
                return assign[nm] if nm in assign else base.answer(missing)
            rr = world.run_solve(fl, base.requested, {}, answer=answer if k > 0 else None)
            cnt['solves'] += 1
            errs, ref2 = monitors.c01(fl, base.requested, rr)
            add(errs, dict(refuse_at=k))
            if rr.exc is None and ((rr.unimpl and rr.need_inputs) or not assign):
                add(_cli_report(year, base, rr), dict(refuse_at=k))
                cnt['solves'] += 1
    elif pid == 'C03':
        errs, _ = monitors.c03(fl, r)
        add(errs)
        # other attempt orders, and the same inputs supplied by file (the attempt sequence of a file-driven solve is
        # very different from a prompt-driven one: lines are retried against partially computed forms)
        for kind, rr in _variants(year, base, assign, r, (ALL_SCHEDS + ['file', 'file-reversed'] + ['file:' + k for k in ALL_SCHEDS]) if not assign
                                  else _pick(QUICK_SCHEDS, assign, 1) + _pick(['file', 'file:reversed', 'file:hash1', 'file:linerev'], assign, 1)):
            cnt['solves'] += 1
            errs, _ = monitors.c03(fl, rr)
            add(errs, dict(schedule=kind))
        if not assign and r.exc is None:
            # the first solve of a process (nothing evaluated before), federal lines first
            from hv import fresh
            kinds = ['reversed'] + (['mixed-fed-file', 'mixed-nc-file'] if any(k.startswith('nc_') for k in r.final_inputs) else [])
            for kind in kinds:
                ch = fresh.child(year, base.name, kind, inputs=r.final_inputs if kind.startswith('mixed') else None)
                cnt['solves'] += 1
                if 'error' in ch:
                    viols.append(('fresh-process-failed', f'fresh interpreter: {ch["error"]}', dict(schedule='fresh-' + kind)))
                else:
                    add([tuple(e) for e in ch['c03']], dict(schedule='fresh-' + kind))
        if not assign and r.exc is None:
            # a store that a solver of another tax year has used before: every line must still be the fixed point of its
            # own (this year's) definition
            for other in sorted(y for y in available_forms if y != year):
                st = world.make_store(r.final_inputs)
                world.run_solve(available_forms[other], base.requested, None, answer=None, store=st, instrument=False)
                rb = world.run_solve(fl, base.requested, None, answer=None, store=st, keep_solver=True)
                cnt['solves'] += 2
                errs, _ = monitors.c03(fl, rb)
                add(errs, dict(schedule=f'store-after-year-{other}'))
    elif pid == 'C04':
        errs, closure = monitors.c04(fl, base.requested, r)
        add(errs)
        if not assign and r.exc is None:
            # the interactive route must produce the same (closure-checked) solution
            add(_cli_prompted(year, base, r))
            cnt['solves'] += 1
        if closure:
            cnt['closure_lines'] = len(closure)
    elif pid == 'C05':
        add(monitors.stored_equals_supplied(r))
        c0 = r.canon()
        # the result must not depend on what this process solved before: every 8th node re-solves the base return of
        # its tree and compares it with the first time this worker process solved it
        import zlib
        if zlib.crc32(repr(sorted(assign.items())).encode()) % 8 == 0:
            rb, _ = e3.run_return(year, base, {})
            cnt['solves'] += 1
            kb = (year, base.name)
            if kb not in _FIRST_SEEN:
                _FIRST_SEEN[kb] = rb.canon()
            elif _FIRST_SEEN[kb] != rb.canon():
                viols.append(('process-history-dependent', f'the base return {base.name} solved again later in the same process gives another outcome', None))
        order0 = tuple(a.line for a in r.log)
        for kind, rr in _variants(year, base, assign, r, (ALL_SCHEDS + ['file', 'file-reversed'] + ['file:' + k for k in ALL_SCHEDS]) if not assign
                                  else _pick(QUICK_SCHEDS, assign, 2) + _pick(['file', 'file-reversed', 'file:reversed', 'file:hash1'], assign, 1)):
            cnt['solves'] += 1
            if tuple(a.line for a in rr.log) != order0:
                cnt['reordered_runs'] = cnt.get('reordered_runs', 0) + 1
            if rr.final_inputs != r.final_inputs and rr.exc is None and r.exc is None:
                # a different order may ask a different set of inputs only if outcomes differ anyway
                pass
            if rr.canon() != c0:
                viols.append(('outcome-differs', f'variant {kind}: {_diff(r, rr)}', dict(variant=kind)))
        if len(base.requested) > 1:
            rr, _ = e3.run_return(year, base, assign, requested=list(reversed(base.requested)), keep_solver=True)
            cnt['solves'] += 1
            if rr.canon() != c0:
                viols.append(('outcome-differs', f'request order reversed: {_diff(r, rr)}', dict(variant='request-reversed')))
        if not assign and r.exc is None:
            # histories inside one process: (a) the same base return of another tax year is solved first; (b) a solver of
            # another year has used the very same InputStore before.  Neither may leave anything behind.
            for other in sorted(y for y in available_forms if y != year):
                try:
                    ob = e3.base_by_name(base.name, other)
                except KeyError:
                    continue
                e3.run_return(other, ob, {})
                ra, _ = e3.run_return(year, base, {})
                cnt['solves'] += 2
                if ra.canon() != c0:
                    viols.append(('process-history-dependent', f'after a {other} solve of {base.name} in the same process: {_diff(r, ra)[:300]}', dict(variant=f'after-year-{other}')))
                st = world.make_store(r.final_inputs)
                world.run_solve(available_forms[other], base.requested, None, answer=None, store=st, instrument=False)
                rb = world.run_solve(fl, base.requested, None, answer=None, store=st)
                cnt['solves'] += 2
                if rb.canon() != c0:
                    viols.append(('store-history-dependent', f'the input store was used by a {other} solver before: {_diff(r, rb)[:300]}', dict(variant=f'store-after-year-{other}')))
            # (c) a fresh interpreter, in which nothing has been solved before, under the natural and the reversed order
            from hv import fresh
            mine = fresh.plain(r)
            for kind in ['natural', 'reversed'] + (['mixed-fed-file', 'mixed-nc-file'] if any(k.startswith('nc_') for k in r.final_inputs) else []):
                ch = fresh.child(year, base.name, kind, inputs=r.final_inputs if kind.startswith('mixed') else None)
                cnt['solves'] += 1
                cnt['fresh_interpreters'] = cnt.get('fresh_interpreters', 0) + 1
                if 'error' in ch:
                    viols.append(('fresh-process-failed', f'fresh interpreter ({kind}): {ch["error"]}', dict(variant=f'fresh-{kind}')))
                elif ch['outcome'] != mine:
                    a, b = mine.get('solution', {}), ch['outcome'].get('solution', {})
                    dd = [f'{sec}.{k}: {a.get(sec, {}).get(k)!r} here vs {b.get(sec, {}).get(k)!r} fresh' for sec in sorted(set(a) | set(b))
                          for k in sorted(set(a.get(sec, {})) | set(b.get(sec, {}))) if a.get(sec, {}).get(k) != b.get(sec, {}).get(k)][:4]
                    viols.append(('process-history-dependent', f'a fresh interpreter ({kind} order) gives another outcome than this long-lived worker: {dd or "verdict / diagnostics differ"}', dict(variant=f'fresh-{kind}')))
            add(_cli_layouts(year, base, r))
            cnt['solves'] += 5
            # every value typed at the real prompt loop (`--prompt-missing` from an empty file) instead of read from the file
            add(_cli_prompted(year, base, r))
            cnt['solves'] += 1
            errs, k = _cli_argv(year, base, r)
            add(errs)
            cnt['solves'] += k
            cnt['argv_command_lines'] = cnt.get('argv_command_lines', 0) + k
    elif pid == 'C06':
        add(monitors.c06(r))
    elif pid == 'C10':
        if r.exc is not None:
            cls, msg = r.exc
            if cls in ('RecursionError', 'AssertionError', 'AttributeError', 'NameError', 'KeyError', 'UnboundLocalError', 'IndexError'):
                viols.append((f'solve-raised-{cls}', f'solve() raised {cls}: {msg[:120]}', None))
            elif cls == 'TypeError' and SIGNATURE_RE.search(msg):
                # a helper called with arguments it does not take: the reference does not resolve
                viols.append(('solve-raised-TypeError-signature', f'solve() raised TypeError: {msg[:160]}', None))
            elif cls == 'NotImplementedError':
                from hv import e4
                if not any(msg == f'Form {a} is not supported.' for a in e4.ABSENT_FORMS):
                    viols.append(('unexpected-unsupported-form', msg, None))
    elif pid == 'C15':
        if r.exc is None and r.verdict:
            add(c15(year, r))
            cnt['solved_returns_checked'] = 1
            if not assign and '1040' in r.solution and any(a[0] == '1040.estimated_tax_payments' for a in asked):
                # total payments exactly equal to, one cent below and one cent above the total tax
                gap = _f(r.solution, '1040', '24') - _f(r.solution, '1040', '33')
                for d_ in (0.0, -0.01, 0.01):
                    if gap + d_ + _f(r.solution, '1040', '26') < 0:
                        continue
                    rr, _ = e3.run_return(year, base, assign, bump={'1040.estimated_tax_payments': round(gap + d_, 2)})
                    cnt['solves'] += 1
                    if rr.exc is None and rr.verdict:
                        add([(k_, f'payments {"equal to" if d_ == 0 else ("one cent above" if d_ > 0 else "one cent below")} the total tax: {m_}')
                             for k_, m_ in c15(year, rr)])
    elif pid == 'C16':
        if r.exc is None and r.verdict:
            errs, n = c16(year, base, assign, r, asked)
            add(errs)
            cnt['solves'] += n
            cnt['pairs'] = n
    elif pid == 'C09':
        add(c09_consulted(year, r))
    elif pid == 'C12':
        add(monitors.c12_store(r))
    elif pid == 'C13':
        add(monitors.c13(r, {}))
        add(monitors.stored_equals_supplied(r))
        if r.exc is None:
            # inputs never read are not required: drop them from the file, nothing may change; and the run on the
            # written-back inputs asks nothing
            read = set(name for a in r.log for kind, name, st, val in a.reads if kind == 'i' and st == 'ok')
            asked2 = []

            def ans(missing, needed_by):
                asked2.append(missing.name())
                return None
            r2 = world.run_solve(fl, base.requested, {k: v for k, v in r.final_inputs.items() if k in read}, answer=ans)
            cnt['solves'] += 1
            if r2.canon() != r.canon():
                viols.append(('unread-input-required', f'dropping the {len(r.final_inputs) - len(read)} never-read inputs changes the outcome: {_diff(r, r2)}', None))
            if asked2 and r.verdict:
                viols.append(('second-run-asks', f'a run on the inputs that were read asks for {asked2[:4]}', None))
            if not assign:
                # ... and whatever the file holds for an input no line reads cannot matter either: text that is not a
                # value of the input's type, for every declared input of the participating forms that was never read
                from habutax import form as hform, inputs as hi
                cm = {C.form_name: C for C in fl}
                junk = {}
                for sec in r.forms:
                    fn, inst = hform.name_and_instance(sec)
                    if fn not in cm:
                        continue
                    for i in cm[fn](instance=inst).inputs():
                        if i.name() not in read and not i.valid('n/a !'):
                            junk[i.name()] = 'n/a !'
                if junk:
                    inputs3 = dict(r.final_inputs)
                    inputs3.update(junk)
                    r3 = world.run_solve(fl, base.requested, inputs3, answer=None)
                    cnt['solves'] += 1
                    cnt['unread_inputs_given_invalid_text'] = len(junk)
                    if r3.canon() != r.canon():
                        viols.append(('unread-input-validated', f'invalid text in {len(junk)} inputs no line reads (e.g. {sorted(junk)[:3]}) changes the outcome: {_diff(r, r3)}', None))
    elif pid == 'C02':
        from hv import c02oracle
        errs, st = c02oracle.check_solution(year, r.solution, inputs=r.final_inputs,
                                            partial=(r.exc is not None or not r.verdict))
        cnt['violating_lines'] = len(errs)
        viols.extend((k, m, dict(kind=k)) for k, m in c02oracle.throttle(year, base.name, errs))
        cnt.update(st)
    return viols, cnt


def _cli_report(year, base, r):
    import os
    from hv import cli
    errs = []
    with cli.workdir() as d:
        inp = os.path.join(d, 'in.ini')
        cli.write_inputs(inp, r.final_inputs)
        res = cli.solve_cli(year, base.requested, inp)
    out = res['stdout']
    if res['exc'] is not None:
        return [('cli-raised', f'habutax solve raised {res["exc"]} where Solver.solve() returned {r.verdict}')]
    said_ok = 'Successfully solved!' in out
    if said_ok != bool(r.verdict):
        errs.append(('cli-verdict', f'CLI printed {"success" if said_ok else "failure"} but the verdict is {r.verdict}'))
    if not r.verdict:
        head = out.split('\n[')[0]
        for u in r.unimpl:
            if f'- {u}' not in head:
                errs.append(('cli-report', f'unimplemented line {u} is not named in the failure report'))
        for dep, ws in list(r.need_inputs.items()) + list(r.blocked.items()):
            ok = False
            for line in head.split('\n'):
                # an input and a line may share a name (1040.first_name): any of the entries may be the one
                if line.startswith(dep + ' (needed by: ') and all(w in line for w in ws):
                    ok = True
            if not ok:
                errs.append(('cli-report', f'{dep} (needed by {sorted(ws)[:3]}) is not named in the failure report'))
    return errs


def _cli_prompted(year, base, r):
    """`habutax solve --prompt-missing` from an empty file through the real prompt loop: same verdict and solution
    as the in-memory run that received the same answers"""
    import os, re, configparser
    from hv import cli
    from hv.props.c20 import _Specs
    specs = _Specs(year)
    name_re = re.compile(r'----\[ (\S+) \]----')
    n = {'k': 0}

    def script(prompt, idx):
        m = name_re.search(prompt)
        n['k'] += 1
        if not m or n['k'] > 3000:
            return cli.Interrupt(EOFError())
        return base.answer(specs.get(m.group(1)))
    errs = []
    with cli.workdir() as d:
        inp = os.path.join(d, 'in.ini')
        sol = os.path.join(d, 'sol.ini')
        open(inp, 'w').close()
        res = cli.solve_cli(year, base.requested, inp, script=script, prompt_missing=True, solution=sol)
        if res['exc'] is not None:
            return [('cli-prompted-raised', f'interactive solve raised {res["exc"]}; the same answers solve in memory ({r.outcome_class()})')]
        cp = configparser.ConfigParser(interpolation=None)
        with open(sol) as fh:
            cp.read_file(fh)
        got = {sec: dict(cp[sec]) for sec in cp.sections() if sec != 'habutax'}
    ok = 'Successfully solved!' in res['stdout']
    if ok != bool(r.verdict):
        errs.append(('cli-prompted-verdict', f'interactive solve says {"solved" if ok else "failed"}, in-memory verdict {r.verdict}'))
    want = {sec: {k: v.strip() for k, v in kv.items()} for sec, kv in r.solution.items()}
    if got != want:
        diff = []
        for sec in sorted(set(got) | set(want)):
            x, y = got.get(sec, {}), want.get(sec, {})
            diff += [f'{sec}.{k}: {x.get(k)!r} vs {y.get(k)!r}' for k in sorted(set(x) | set(y)) if x.get(k) != y.get(k)]
        errs.append(('cli-prompted-solution', f'interactive solve differs from the in-memory solve with the same answers: {diff[:4]}'))
    return errs


def boost_items(year, base):
    """one-line priority deviations of the attempt order: every computed line of every form other than the input-only
    forms is, in turn, ranked before everything else and after everything else, in a file-driven solve of the same
    inputs; each result must be a fixed point and equal to the base outcome"""
    from habutax.form import InputForm
    fl = available_forms[year]
    r, asked = e3.run_return(year, base, {})
    if r.exc is not None:
        return []
    skip = set(C.form_name for C in fl if issubclass(C, InputForm))
    lines = [f'{sec}.{k}' for sec, kv in r.solution.items() if sec.split(':')[0] not in skip for k in kv]
    return [(year, base.name, line, kind) for line in lines for kind in ('perm', 'last')]


_BOOST_CACHE = {}


def boost_work(arg):
    year, bname, line, kind = arg
    fl = available_forms[year]
    if (year, bname) not in _BOOST_CACHE:
        base = e3.base_by_name(bname, year)
        r, asked = e3.run_return(year, base, {})
        _BOOST_CACHE[(year, bname)] = (base, r)
    base, r = _BOOST_CACHE[(year, bname)]
    sch = world.Schedule(kind, order=[line])
    rr = world.run_solve(fl, base.requested, r.final_inputs, answer=None, schedule=sch)
    errs = []
    e3_, _ = monitors.c03(fl, rr)
    for k_, m_ in e3_:
        errs.append((k_, f'{line} ranked {"first" if kind == "perm" else "last"}: {m_}'))
    if rr.canon() != r.canon():
        errs.append(('outcome-differs', f'{line} ranked {"first" if kind == "perm" else "last"}: {_diff(r, rr)}'))
    return errs


def _cli_layouts(year, base, r):
    """`habutax solve` on the same inputs written in different file layouts: same verdict text and solution"""
    import os, configparser
    from hv import cli
    errs = []
    ref = None
    with cli.workdir() as d:
        for layout in (None, 'sections-reversed', 'keys-reversed', 'both-reversed', 'colon-upper'):
            inp = os.path.join(d, f'in_{layout}.ini')
            sol = os.path.join(d, f'sol_{layout}.ini')
            cli.write_inputs(inp, r.final_inputs, layout=layout)
            res = cli.solve_cli(year, base.requested, inp, solution=sol)
            if res['exc'] is not None:
                got = ('raised', res['exc'][0])
            else:
                cp = configparser.ConfigParser(interpolation=None)
                with open(sol) as fh:
                    cp.read_file(fh)
                head = res['stdout'].split('Solver results written')[0]
                got = ('Successfully solved!' in head, {sec: dict(cp[sec]) for sec in cp.sections()},
                       sorted(l for l in head.split('\n') if l.startswith('- ') or '(needed by:' in l))
            if ref is None:
                ref = got
            elif got != ref:
                errs.append(('cli-layout-differs', f'input file layout {layout}: outcome differs from the plain layout'))
    return errs


def _cli_argv(year, base, r):
    """the console entry point with the --year option in every position and spelling: a command line is either rejected
    with a usage error or solves the year it names, with the result of the in-memory solve of that year"""
    import os, configparser
    from hv import cli
    from habutax.forms import available_forms
    errs = []
    n = 0
    default_year = max(available_forms)
    with cli.workdir() as d:
        inp = os.path.join(d, 'in.ini')
        cli.write_inputs(inp, r.final_inputs)
        for k, (label, argv) in enumerate(cli.argv_arrangements(year, base.requested, inp, os.path.join(d, 'sol.ini'), default_year)):
            sol = os.path.join(d, 'sol.ini')
            if os.path.exists(sol):
                os.remove(sol)
            res = cli.main_cli(argv)
            n += 1
            if res['exc'] == ('SystemExit', '2') and 'usage:' in res['stderr']:
                if os.path.exists(sol):
                    errs.append((f'cli-argv|{label}|rejected-but-wrote', f'{argv[:6]}: usage error, yet a solution file was written'))
                continue
            if res['exc'] is not None:
                if r.exc is None:
                    errs.append((f'cli-argv|{label}|raised', f'command line {label}: {res["exc"]} where the in-memory solve ends normally'))
                continue
            if r.exc is not None:
                errs.append((f'cli-argv|{label}|not-raised', f'command line {label}: ends normally where the in-memory solve raises {r.exc}'))
                continue
            cp = configparser.ConfigParser(interpolation=None)
            with open(sol) as fh:
                cp.read_file(fh)
            got = {sec: dict(cp[sec]) for sec in cp.sections()}
            stamp = got.pop('habutax', {})
            if stamp.get('tax_year') != str(year):
                errs.append((f'cli-argv|{label}|year', f'command line {label} names year {year}; the solution is stamped tax_year={stamp.get("tax_year")!r}'))
            if got != r.solution:
                dd = [f'{sec}.{k}: {got.get(sec, {}).get(k)!r} vs {r.solution.get(sec, {}).get(k)!r}'
                      for sec in sorted(set(got) | set(r.solution)) for k in sorted(set(got.get(sec, {})) | set(r.solution.get(sec, {})))
                      if got.get(sec, {}).get(k) != r.solution.get(sec, {}).get(k)][:4]
                errs.append((f'cli-argv|{label}|solution', f'command line {label} for year {year}: solution differs from the in-memory solve of {year}: {dd}'))
            ok = 'Successfully solved!' in res['stdout']
            if ok != bool(r.verdict):
                errs.append((f'cli-argv|{label}|verdict', f'command line {label}: verdict {ok} vs {r.verdict}'))
    return errs, n


def _diff(a, b):
    if a.exc or b.exc:
        return f'{a.exc} vs {b.exc}'
    out = []
    if a.verdict != b.verdict:
        out.append(f'verdict {a.verdict} vs {b.verdict}')
    for sec in sorted(set(a.solution) | set(b.solution)):
        x, y = a.solution.get(sec, {}), b.solution.get(sec, {})
        for k in sorted(set(x) | set(y)):
            if x.get(k) != y.get(k):
                out.append(f'{sec}.{k}: {x.get(k)!r} vs {y.get(k)!r}')
    if a.unimpl != b.unimpl:
        out.append(f'unimplemented {sorted(a.unimpl)} vs {sorted(b.unimpl)}')
    if a.need_inputs != b.need_inputs:
        out.append(f'needed inputs {sorted(a.need_inputs)} vs {sorted(b.need_inputs)}')
    if a.blocked != b.blocked:
        out.append(f'blocked differ')
    if a.forms != b.forms:
        out.append(f'forms {a.forms} vs {b.forms}')
    return '; '.join(out[:5])


# --------------------------------------------------------------------------
# C15: balance identities and non-negative lines of solved returns
NONNEG = {
    '1040': ['1z', '9', '12', '14', '15', '16', '18', '19', '20', '21', '22', '24', '25a', '25b', '25c', '25d', '26', '28', '32', '33', '34', '35a', '36', '37'],
    '1040_sa': ['1', '3', '4', '5d', '5e', '7', '10', '14', '17'],
    '1040_s1': ['10', '26'],
    '1040_s3': ['1', '7', '8'],
    '1040_s8812': ['5', '8', '10', '11', '12', '14', '27'],
    '8606': ['3', '5', '9', '10', '11', '12', '13', '14', '15a', '15c', '18', 'taxable_amount'],
    '8889': ['2', '3', '5', '6', '8', '12', '13'],
    '8995': ['4', '5', '10', '13', '14', '15'],
    '8959': ['4', '6', '7', '18', '22', '24'],
    '1040_qualdiv_capgain_tax_wkst': ['1', '4', '5', '9', '10', '18', '21', '22', '23', '24', '25'],
    'nc_d-400': ['11', '15', '17', '18', '19', '20a', '20b', '23', '25', '26a', '27', '28', '33', '34'],
    'nc_d-400_consumer_use_tax_wkst': ['estimate', '1', '2', '3', '4', '5', '6', 'consumer_use_tax'],
    'nc_d-400_child_deduction_wkst': ['4', '5'],
    'nc_d-400_ss': ['15', '16', '41'],
    'nc_d-400_sa': ['deduction', '10'],
}


def _f(sol, sec, k):
    v = sol.get(sec, {}).get(k)
    return float(v) if v not in (None, '') else 0.0


def c15(year, r):
    errs = []
    sol = r.solution
    if '1040' in sol:
        g = lambda k: _f(sol, '1040', k)
        if abs((g('34') - g('37')) - (g('33') - g('24'))) > 0.005:
            errs.append(('1040-balance', f'overpayment {g("34")} - owed {g("37")} != payments {g("33")} - tax {g("24")}'))
        if min(g('34'), g('37')) > 0.0:
            errs.append(('1040-both-positive', f'overpayment {g("34")} and amount owed {g("37")} are both positive'))
        if g('34') <= 0 and (g('35a') > 0 or g('36') > 0):
            errs.append(('1040-applied-without-overpayment', f'refund {g("35a")} / applied {g("36")} although nothing is overpaid'))
        if abs(g('35a') + g('36') - g('34')) > 0.005:
            errs.append(('1040-refund-split', f'refund {g("35a")} + applied {g("36")} != overpayment {g("34")}'))
    if 'nc_d-400' in sol:
        g = lambda k: _f(sol, 'nc_d-400', k)
        s = sol['nc_d-400']
        if g('25') >= g('19'):
            if '28' in s and abs(g('28') - (g('25') - g('19'))) > 0.5:
                errs.append(('nc-balance', f'line 28 {g("28")} != 25 {g("25")} - 19 {g("19")}'))
            if '34' in s and abs(g('34') + g('33') - g('28')) > 0.5:
                errs.append(('nc-refund-split', f'34 {g("34")} + 33 {g("33")} != 28 {g("28")}'))
            if '26a' in s and g('26a') > 0:
                errs.append(('nc-both-positive', f'tax due {g("26a")} although payments cover the tax'))
        else:
            if '26a' in s and abs(g('26a') - (g('19') - g('25'))) > 0.5:
                errs.append(('nc-balance', f'line 26a {g("26a")} != 19 {g("19")} - 25 {g("25")}'))
            if '27' in s and abs(g('27') - (g('26a') + g('26d') + g('26e'))) > 0.5:
                errs.append(('nc-due-total', f'27 {g("27")} != 26a+26d+26e'))
            if '28' in s and g('28') > 0:
                errs.append(('nc-both-positive', f'overpayment {g("28")} although tax exceeds payments'))
            applied = {k: g(k) for k in ('29', '30', '31', '32', '33') if k in s and g(k) > 0}
            if applied:
                errs.append(('nc-applied-without-overpayment', f'amounts applied / contributed out of the refund {applied} on a return with tax due (19 {g("19")} > 25 {g("25")})'))
    for sec, kv in sol.items():
        fn = sec.split(':')[0]
        for k in NONNEG.get(fn, ()):
            if k in kv and kv[k] not in ('',):
                try:
                    x = float(kv[k])
                except ValueError:
                    continue
                if x < 0:
                    errs.append((f'negative|{fn}.{k}', f'{sec}.{k} = {kv[k]} is negative'))
        if fn == '8606' and '10' in kv and not (0.0 <= float(kv['10']) <= 1.0):
            errs.append(('ratio|8606.10', f'{sec}.10 = {kv["10"]} is not within [0, 1]'))
    return errs


SIGNATURE_RE = re.compile(r'positional argument|unexpected keyword argument|missing \d+ required|got multiple values for|object is not callable')


# --------------------------------------------------------------------------
# C16: metamorphic relations
DELTAS = [1.0, 50.0, 1000.0, 100000.0]
WITHHOLDING = ['w-2:*.box_2', '1099-r:*.box_4', '1099-div:*.box_4', '1099-int:*.box_4', '1040.other_federal_withholding',
               '1040.estimated_tax_payments']
EXPENSES = ['1040_sa.medical_dental_expenses', '1040_sa.state_local_real_estate_taxes', '1040_sa.state_local_personal_property_taxes',
            '1040_sa.other_taxes_amount', '1040_sa.charitable_cash_check', '1040_sa.charitable_other_than_cash_check',
            '1040_sa.charitable_carryover', '1040_sa.other_itemized', '1040_sa.other_mortgage_interest', '1098:*.box_1',
            '1040_s1.educator_expenses', '1040_s1.alimony_paid', '1040.charitable_contributions_std_ded']
LISTING = ('1040_sb',)


def _match(name, pats):
    import fnmatch
    return any(fnmatch.fnmatchcase(name, p) for p in pats)


@functools.lru_cache(maxsize=None)
def _declared_1040(year):
    from habutax.forms import available_forms
    C = [C for C in available_forms[year] if C.form_name == '1040'][0]
    return frozenset(i.name() for i in C().inputs())


def c16(year, base, assign, r, asked):
    import itertools
    errs = []
    n = 0
    sol = r.solution
    if '1040' not in sol:
        return errs, n
    t24 = _f(sol, '1040', '24')
    net = _f(sol, '1040', '34') - _f(sol, '1040', '37')
    names = [a[0] for a in asked]
    # --- renumbering of multi-copy input forms
    groups = {}
    for sec in sol:
        if ':' in sec and sec.split(':')[1].isdigit():
            groups.setdefault(sec.split(':')[0], []).append(sec)
    perms = []
    for fn, secs in groups.items():
        secs = sorted(secs)
        if 2 <= len(secs) <= 3:
            for p in itertools.permutations(secs):
                if list(p) != secs:
                    perms.append(dict(zip(secs, p)))
        elif len(secs) > 3:
            # more copies than the bound on full permutation: reversal, one rotation, first <-> last
            secs = sorted(secs, key=lambda x: int(x.split(':')[1]))
            for p in (secs[::-1], secs[1:] + secs[:1], secs[-1:] + secs[1:-1] + secs[:1]):
                perms.append(dict(zip(secs, p)))
    for ren in perms:
        rr, _ = e3.run_return(year, base, assign, rename=ren)
        n += 1
        if rr.exc is not None or not rr.verdict:
            errs.append(('renumbering-changes-verdict', f'renumbering {ren}: {rr.outcome_class()}'))
            continue
        if len(ren) > 3:
            # many copies: the renumbered return also supplied as a file whose sections stand in the opposite order
            # (what renaming section headers in place produces)
            rf = world.run_solve(available_forms[year], base.requested, rr.final_inputs, answer=None, layout='reversed')
            n += 1
            if rf.canon() != rr.canon():
                errs.append(('renumbering-changes-values', f'renumbering {sorted(ren.items())[:3]}.. supplied as a file with the sections in reverse order: {_diff(rr, rf)[:300]}'))
        inv = {v: k for k, v in ren.items()}
        for sec in sorted(set(sol) | set(rr.solution)):
            if sec.split(':')[0] in LISTING:
                a = sorted(v for k, v in sol.get(sec, {}).items())
                b = sorted(v for k, v in rr.solution.get(sec, {}).items())
                if a != b:
                    errs.append(('renumbering-changes-listing', f'renumbering {ren}: {sec} differs beyond the order of rows'))
                continue
            # section sec of the renumbered run received the answers of ren[sec]
            other = ren.get(sec, sec)
            if rr.solution.get(sec) != sol.get(other):
                x, y = rr.solution.get(sec, {}), sol.get(other, {})
                d = [k for k in sorted(set(x) | set(y)) if x.get(k) != y.get(k)][:3]
                errs.append(('renumbering-changes-values', f'renumbering {ren}: {sec} lines {d} differ, e.g. {x.get(d[0]) if d else None!r} vs {y.get(d[0]) if d else None!r}'))
                break
    # --- wages carried just below / just above every bracket boundary of the year's rate schedule
    if not assign and 'w-2:0.box_1' in names and sol.get('1040', {}).get('15') not in (None, ''):
        from hv import statutory
        status = sol['1040'].get('filing_status', 'Single')
        ti = _f(sol, '1040', '15')
        try:
            bounds = [float(b) for b, rate in statutory.brackets(year, status)]
        except Exception:
            bounds = []
        for b in bounds + [100000.0]:
            if b <= ti + 2:
                continue
            lo, _ = e3.run_return(year, base, assign, bump={'w-2:0.box_1': b - ti - 1.0})
            hi, _ = e3.run_return(year, base, assign, bump={'w-2:0.box_1': b - ti + 1.0})
            n += 2
            if lo.exc is None and lo.verdict and hi.exc is None and hi.verdict:
                if _f(hi.solution, '1040', '24') < _f(lo.solution, '1040', '24') - 0.005:
                    errs.append(('wages-lower-tax|bracket-boundary', f'taxable income carried from {b - 1} to {b + 1} by 2 more dollars of wages: total tax {_f(lo.solution, "1040", "24")} -> {_f(hi.solution, "1040", "24")}'))
    # --- monotonicity and withholding
    # these two amounts are part of every federal return: they are raised whether or not the solve asked for them
    # (a return that no longer reads one of them ignores money the filer paid)
    declared = _declared_1040(year)
    for always in ('1040.other_federal_withholding', '1040.estimated_tax_payments'):
        if always not in names and always in declared:     # (2021 declares no other-withholding input)
            names = names + [always]
    for name in names:
        kind = None
        if _match(name, ['w-2:*.box_1']):
            kind = 'wages'
        elif _match(name, WITHHOLDING):
            kind = 'withholding'
        elif _match(name, EXPENSES):
            kind = 'expense'
        if kind is None:
            continue
        deltas = list(DELTAS)
        if kind == 'expense' and name.startswith(('1040_sa.', '1098:')) and sol.get('1040', {}).get('itemizing') == 'False' and '1040_sa' in sol:
            # the increment that carries the itemized total just across the deduction the return takes instead
            have = _f(sol, '1040', '12c') if '12c' in sol['1040'] else _f(sol, '1040', '12')
            gap = _f(sol, '1040', '12a' if '12a' in sol['1040'] else '12') - _f(sol, '1040_sa', '17')
            if gap > 0:
                deltas += [round(gap + 1.0, 2), round(gap + 100.0, 2), round(have - _f(sol, '1040_sa', '17') + 1.0, 2)]
        for dlt in deltas:
            rr, _ = e3.run_return(year, base, assign, bump={name: dlt})
            n += 1
            if rr.exc is not None or not rr.verdict:
                continue
            s2 = rr.solution
            if kind == 'wages' and _f(s2, '1040', '24') < t24 - 0.005:
                errs.append((f'wages-lower-tax|{name.split(".")[1]}', f'{name} +{dlt}: total tax {t24} -> {_f(s2, "1040", "24")}'))
            if kind == 'expense' and _f(s2, '1040', '24') > t24 + 0.005:
                errs.append((f'expense-raises-tax|{name}', f'{name} +{dlt}: total tax {t24} -> {_f(s2, "1040", "24")}'))
            if kind == 'withholding':
                net2 = _f(s2, '1040', '34') - _f(s2, '1040', '37')
                if abs((net2 - net) - dlt) > 0.005:
                    errs.append((f'withholding-not-dollar-for-dollar|{name.split(".")[1] if ":" in name else name}', f'{name} +{dlt}: refund-minus-owed {net} -> {net2}'))
    return errs, n


# --------------------------------------------------------------------------
# C09 (A): a consulted affirmative gate never solves
_GATES = None


def gates():
    global _GATES
    if _GATES is None:
        import json, os
        p = os.path.join(hv.VERIF, 'hv', 'gates.json')
        _GATES = json.load(open(p)) if os.path.exists(p) else dict(entries=[], unconditional=[])
    return _GATES


def c09_consulted(year, r):
    """a line that is a gate on a boolean input (frozen `refusing` pairs) read yes, yet the return solved"""
    errs = []
    if r.exc is not None or not r.verdict:
        return errs
    g = gates()
    if 'refusing_set' not in g:
        g['refusing_set'] = set((y, l, n) for y, l, n in g.get('refusing', []))
    ref = g['refusing_set']
    for a in r.log:
        for kind, name, st, val in a.reads:
            if kind == 'i' and st == 'ok' and val is True and (year, a.line, name) in ref:
                errs.append((f'gate-solved|{a.line}|{name}', f'{a.line} read {name} = yes (a declared unsupported situation) and the return still solved'))
    return errs
