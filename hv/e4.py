"""E4: open-environment exploration of single line definitions.

Every line definition of every form (year x class x instance) is executed under an
environment that answers each i[...] / v[...] with every member of the alphabet of the
declared type of the thing referred to (DFS over answer vectors, deviation bounded).
Before answering, the environment resolves the name against the year's catalogue:
that resolution is the C10 oracle."""
import ast
import inspect
import sys
from collections.abc import Mapping

import hv
from habutax import fields as hf, inputs as hi, form as hform
from habutax.form import InputForm
from habutax.forms import available_forms

ABSENT_FORMS = ('1040_s2', '1099-oid')   # referenced but deliberately not catalogued
MONEY = [50000.0, 0.0, 0.5, 1500.01, 3e5, 1.2e6]


class Unresolved(Exception):
    def __init__(self, kind, name, detail=''):
        self.kind, self.name, self.detail = kind, name, detail
        super().__init__(f'{kind}: {name} {detail}')


class AbsentReached(Exception):
    pass


class OnDemandForms(dict):
    def __init__(self, year, solver):
        super().__init__()
        self.year, self.solver = year, solver
        self.fm = {C.form_name: C for C in available_forms[year]}

    def __missing__(self, name):
        fn, inst = hform.name_and_instance(name)
        if fn not in self.fm:
            if fn in ABSENT_FORMS:
                raise AbsentReached(fn)
            raise Unresolved('form', name, 'is not in the catalogue')
        C = self.fm[fn]
        if hasattr(C, 'valid_instances'):
            if inst not in C.valid_instances:
                raise Unresolved('instance', name, f'instance must be one of {C.valid_instances}')
        elif issubclass(C, InputForm):
            if inst is not None and not inst.isdigit():
                raise Unresolved('instance', name, 'numbered form with a non-numeric instance')
        elif inst is not None:
            raise Unresolved('instance', name, 'single-instance form referenced with an instance')
        f = C(solver=self.solver, instance=inst)
        self[name] = f
        return f

    def __contains__(self, name):
        return True


class StubSolver(object):
    def __init__(self, year):
        self.forms = OnDemandForms(year, self)
        self._index = {}

    def lookup(self, kind, full):
        """returns the Input / Field object a name refers to, or raises Unresolved/AbsentReached"""
        if full.count('.') != 1:
            raise Unresolved('malformed', full)
        sec, base = full.split('.')
        f = self.forms[sec]
        key = (kind, sec)
        if key not in self._index:
            objs = f.inputs() if kind == 'i' else f.fields()
            self._index[key] = {o.base_name(): o for o in objs}
        o = self._index[key].get(base)
        if o is None:
            raise Unresolved('input' if kind == 'i' else 'line', full, f'form {sec} has no such {"input" if kind == "i" else "line"}')
        return o


def alphabet_for(obj, extra_money):
    if isinstance(obj, hi.Input):
        if isinstance(obj, hi.EnumInput):
            out = list(obj.enum)
            if len(out) > 8:
                out = out[:2] + [m for m in out if m.name in ('NC', 'D', 'W', 'DD')]
            return out + ([None] if obj.allow_empty else [])
        if isinstance(obj, hi.BooleanInput):
            return [False, True]
        if isinstance(obj, hi.IntegerInput):
            return [1, 0, 2, 3, 15] if obj.base_name().startswith('number_') else [1, 0, 3]
        if isinstance(obj, hi.FloatInput):
            return MONEY + extra_money
        if isinstance(obj, hi.SSNInput):
            return ['123456789']
        return ['x', '']
    if isinstance(obj, hf.EnumField):
        out = list(obj.enum())
        if len(out) > 8:
            out = out[:2] + [m for m in out if m.name in ('NC', 'D', 'W', 'DD')]
        return out + [None]
    if isinstance(obj, hf.BooleanField):
        return [False, True]
    if isinstance(obj, hf.IntegerField):
        return [1, 0, 2, 3, 15]
    if isinstance(obj, hf.FloatField):
        return [round(x, obj._places) for x in MONEY + extra_money]
    return ['x', '']


class Env(object):
    def __init__(self, solver, script, extra_money, sites):
        self.solver, self.script, self.extra, self.sites = solver, script, extra_money, sites
        self.pos = 0
        self.trace = []     # (name, number of alternatives)
        self.memo = {}

    def read(self, kind, full, frame):
        if self.sites is not None and frame is not None:
            try:
                pos = _position(frame)
                if pos is not None:
                    self.sites.add((frame.f_code.co_filename,) + pos)
            except Exception:
                pass
        key = (kind, full)
        if key in self.memo:
            return self.memo[key]
        obj = self.solver.lookup(kind, full)
        alpha = alphabet_for(obj, self.extra)
        k = self.script[self.pos] if self.pos < len(self.script) else 0
        self.pos += 1
        self.trace.append((full, len(alpha)))
        val = alpha[k if k < len(alpha) else 0]
        self.memo[key] = val
        return val


_POS_CACHE = {}


def _position(frame):
    code = frame.f_code
    if code not in _POS_CACHE:
        _POS_CACHE[code] = list(code.co_positions())
    ps = _POS_CACHE[code]
    idx = frame.f_lasti // 2
    if idx < len(ps):
        p = ps[idx]
        if p[0] is not None:
            return p
    return None


class Acc(Mapping):
    def __init__(self, env, kind, form):
        self.env, self.kind, self.form = env, kind, form

    def __getitem__(self, key):
        full = key if '.' in key else f'{self.form.name()}.{key}'
        return self.env.read(self.kind, full, sys._getframe(1))

    def __iter__(self):
        return iter(())

    def __len__(self):
        return 0


def harvest_constants(fn, form):
    """numeric literals of the definition (and helpers it names) and thresholds of its form -> c-d, c, c+d"""
    consts = set()
    seen = set()

    def walk(code):
        if code in seen:
            return
        seen.add(code)
        for c in code.co_consts:
            if isinstance(c, (int, float)) and not isinstance(c, bool) and abs(c) >= 100:
                consts.add(float(c))
            elif hasattr(c, 'co_consts'):
                walk(c)
    f = getattr(fn, '__func__', fn)
    if hasattr(f, '__code__'):
        walk(f.__code__)
        for cell in (f.__closure__ or ()):
            try:
                v = cell.cell_contents
            except ValueError:
                continue
            if hasattr(v, '__code__'):
                walk(v.__code__)
    out = []
    for c in sorted(consts)[:6]:
        out += [c - 0.01, c, c + 0.01]
    return out


def threshold_constants(form):
    vals = set()
    for t in form._thresholds.values():
        for v in (t.values() if isinstance(t, dict) else [t]):
            if isinstance(v, (int, float)) and not isinstance(v, bool) and abs(v) >= 100:
                vals.add(float(v))
    return sorted(vals)


def make_ctx(year, C, inst, line_index, rich=True):
    solver = StubSolver(year)
    name = C.form_name if inst is None else f'{C.form_name}:{inst}'
    form = C(solver=solver, instance=inst)
    solver.forms[name] = form
    fld = form.fields()[line_index]
    extra = harvest_constants(fld._value, form) if rich else []
    return solver, form, fld, extra


def run_once(ctx, script, sites=None, collect=None):
    """one execution of one line definition; returns (outcome tuple, trace)"""
    solver, form, fld, extra = ctx
    env = Env(solver, script, extra, sites)
    try:
        val = fld.value(Acc(env, 'i', form), Acc(env, 'v', form))
        out = ('value', type(val).__name__)
    except hf.FieldNotImplemented:
        out = ('not-implemented',)
    except AbsentReached as e:
        out = ('absent-form', str(e))
    except Unresolved as e:
        out = ('unresolved', e.kind, e.name, e.detail)
    except RecursionError:
        out = ('raised', 'RecursionError', '')
    except Exception as e:
        out = ('raised', type(e).__name__, str(e)[:160])
    if collect is not None:
        collect.append((dict(env.memo), out))
    return out, env.trace, fld.name()


def explore_line(year, C, inst, line_index, max_dev, cap, sites=None, rich=True, collect=None):
    """DFS over answer vectors; returns dict(executions, outcomes {outcome: example script}, capped, full)"""
    outcomes = {}
    n = 0
    capped = False
    ctx = make_ctx(year, C, inst, line_index, rich)
    lname = ctx[2].name()
    # first try the full product under the cap; if it does not fit, bound the deviations
    for bound in (None, max_dev):
        outcomes.clear()
        n = 0
        capped = False
        stack = [[]]
        while stack:
            script = stack.pop()
            if n >= cap:
                capped = True
                break
            n += 1
            out, trace, lname = run_once(ctx, script, sites, collect)
            if out not in outcomes:
                outcomes[out] = (list(script), [t[0] for t in trace])
            devs = sum(1 for k in script if k != 0)
            for i in range(len(script), len(trace)):
                for alt in range(1, trace[i][1]):
                    if bound is not None and devs + 1 > bound:
                        break
                    stack.append(script + [0] * (i - len(script)) + [alt])
        if not capped:
            return dict(executions=n, outcomes=dict(outcomes), capped=False, full=(bound is None), line=lname)
        if bound is None:
            cap_first = cap
            continue
    return dict(executions=n, outcomes=dict(outcomes), capped=True, full=False, line=lname)


def instances(C):
    if hasattr(C, 'valid_instances'):
        return list(C.valid_instances)
    if issubclass(C, InputForm):
        return ['0']
    return [None]


def work_items(years=None):
    items = []
    for year in sorted(available_forms):
        if years and year not in years:
            continue
        for ci, C in enumerate(available_forms[year]):
            for inst in instances(C):
                f = C(instance=inst)
                for li in range(len(f.fields())):
                    items.append((year, ci, inst, li))
    return items


# --------------------------------------------------------------------------
# reference-site inventory (AST is used to count sites, not to decide anything)
def site_inventory(year):
    """all i[...] / v[...] subscript sites in the form modules of a year: set of (filename, lineno, end_lineno, col, end_col)"""
    out = set()
    mods = set()
    for C in available_forms[year]:
        mods.add(sys.modules[C.__module__])
    for m in mods:
        fn = m.__file__
        tree = ast.parse(open(fn).read())
        for node in ast.walk(tree):
            if isinstance(node, ast.Subscript) and isinstance(node.value, ast.Name) and node.value.id in ('i', 'v'):
                out.add((fn, node.lineno, node.end_lineno, node.col_offset, node.end_col_offset))
    return out
