"""A base return solved in a fresh interpreter (nothing solved, listed or filled before in that process).

    python -m hv.fresh <year> <base> <schedule-kind|file>

prints one JSON object: the outcome in a comparable form and the C03 monitor's findings for that solve."""
import json
import os
import subprocess
import sys


def _plain(r):
    if r.exc is not None:
        return dict(abort=True)
    return dict(verdict=bool(r.verdict), solution={s: dict(kv) for s, kv in r.solution.items()}, unimpl=sorted(r.unimpl),
                needs={k: sorted(v) for k, v in r.need_inputs.items()}, blocked={k: sorted(v) for k, v in r.blocked.items()},
                forms=sorted(r.forms))


def plain(r):
    return json.loads(json.dumps(_plain(r), sort_keys=True))


def main(argv):
    year, bname, kind = int(argv[0]), argv[1], argv[2]
    from hv import e3, world, monitors
    from habutax.forms import available_forms
    base = e3.base_by_name(bname, year)
    if kind.startswith('mixed-'):
        # the inputs of one family of forms (federal / state) stand in the file, the others are typed at the prompt
        with open(argv[3]) as fh:
            inputs = json.load(fh)
        state = lambda name: name.startswith('nc_')
        infile = {k: v for k, v in inputs.items() if state(k) == (kind == 'mixed-nc-file')}

        def answer(missing, needed_by):
            n = missing.name()
            return inputs[n] if n in inputs else base.answer(missing)
        r = world.run_solve(available_forms[year], base.requested, infile, answer=answer, keep_solver=True)
    else:
        sch = None if kind == 'natural' else world.Schedule(kind)
        r, asked = e3.run_return(year, base, {}, schedule=sch, keep_solver=True)
    errs = []
    if r.exc is None:
        e, _ = monitors.c03(available_forms[year], r)
        errs = [list(x) for x in e]
    json.dump(dict(outcome=_plain(r), c03=errs), sys.stdout, sort_keys=True)


def child(year, bname, kind='natural', inputs=None):
    """-> dict(outcome, c03) or dict(error)"""
    import tempfile
    extra = []
    tmp = None
    if inputs is not None:
        fd, tmp = tempfile.mkstemp(prefix='hvfresh_', suffix='.json')
        with os.fdopen(fd, 'w') as fh:
            json.dump(inputs, fh)
        extra = [tmp]
    try:
        return _child(year, bname, kind, extra)
    finally:
        if tmp:
            os.remove(tmp)


def _child(year, bname, kind, extra):
    env = dict(os.environ)
    root = os.path.dirname(os.path.dirname(os.path.abspath(__file__)))
    env['PYTHONPATH'] = os.pathsep.join([root] + [p for p in sys.path if p])
    p = subprocess.run([sys.executable, '-B', '-W', 'ignore', '-m', 'hv.fresh', str(year), bname, kind] + extra,
                       capture_output=True, text=True, env=env, cwd=root)
    try:
        return json.loads(p.stdout[p.stdout.index('{'):])
    except Exception:
        return dict(error=f'rc={p.returncode} {p.stderr[-400:]}')


if __name__ == '__main__':
    main(sys.argv[1:])
