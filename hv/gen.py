"""Driver: exhaustive exploration of generated programs x environments x schedules
with the monitors of one property."""
import json
import hv
from hv import e2a, world, refeval, monitors, runner


def prog_text(prog):
    return [f"{l['form']}.{l['name']}{'' if l['req'] else '?'}: " + ' ; '.join(map(fmt_op, l['body'])) for l in prog]


def fmt_op(op):
    if op[0] == 'G':
        return 'if p: ' + fmt_op(op[1])
    if op[0] == 'NI':
        return 'NI'
    return f'{op[0]}({op[1]})'


def check_case(prog, env, pid, want_schedules=True, forms=None, sched_cap=48):
    """run one (program, environment) under the natural schedule and all relevant
    rank permutations; evaluate monitors for `pid`.
    returns (violations [(kind, msg, sched_desc)], counters dict, outcome token)"""
    forms = forms or e2a.build_forms(prog)
    viols = []
    cnt = dict(executions=0, schedules=0, prompts=0, reorderings=0)
    nat = world.Schedule('natural')
    r0 = e2a.execute(prog, env, schedule=nat, forms=forms)
    cnt['executions'] += 1
    cnt['prompts'] += len(r0.prompts)
    results = [(r0, None)]
    if want_schedules:
        orders, complete = e2a.schedules_for(r0, cap=sched_cap)
        if not complete:
            cnt['schedule_caps'] = 1
        pairs = set(nat.compared)
        done = set()
        for rounds in range(3):
            new_pairs = set()
            for order in orders:
                if tuple(order) in done:
                    continue
                done.add(tuple(order))
                sch = world.Schedule('perm', order=order)
                r = e2a.execute(prog, env, schedule=sch, forms=forms)
                cnt['executions'] += 1
                cnt['schedules'] += 1
                results.append((r, sch.describe()))
                new_pairs |= sch.compared - pairs
            if not new_pairs:
                break
            # names that were compared only under another order: close the comparison graph and enumerate again
            pairs |= new_pairs
            cnt['schedule_closure_rounds'] = cnt.get('schedule_closure_rounds', 0) + 1
            orders, c2 = e2a.schedules_for(r0, cap=sched_cap, pairs=pairs)
            if not c2:
                cnt['schedule_caps'] = 1
        # all-refused environments: also the solver built without a prompt function
        if not env['answers']:
            r = e2a.execute(prog, env, schedule=world.Schedule('natural'), no_prompt=True, forms=forms)
            cnt['executions'] += 1
            results.append((r, {'kind': 'natural', 'no_prompt': True}))
    # ---- monitors ------------------------------------------------------
    ref_cache = {}

    def ref_for(r):
        k = tuple(sorted(r.final_inputs.items()))
        if k not in ref_cache:
            ref_cache[k] = refeval.Ref(forms, ['a'], r.final_inputs).run()
        return ref_cache[k]

    groups = {}
    for r, sd in results:
        if pid == 'C01':
            for kind, msg in refeval.compare(r, ref_for(r)):
                viols.append((kind, msg, sd))
        elif pid == 'C03':
            errs, _ = monitors.c03(forms, r)
            for kind, msg in errs:
                viols.append((kind, msg, sd))
        elif pid == 'C04':
            errs, _ = monitors.c04(forms, ['a'], r)
            for kind, msg in errs:
                viols.append((kind, msg, sd))
        elif pid == 'C06':
            for kind, msg in monitors.c06(r):
                viols.append((kind, msg, sd))
        elif pid == 'C13':
            for kind, msg in monitors.c13(r, env['file']) + monitors.stored_equals_supplied(r):
                viols.append((kind, msg, sd))
        if pid == 'C05':
            for kind, msg in monitors.stored_equals_supplied(r):
                viols.append((kind, msg, sd))
            k = tuple(sorted(r.final_inputs.items()))
            groups.setdefault(k, []).append((r, sd))
    if pid == 'C05':
        for k, members in groups.items():
            c0 = members[0][0].canon()
            orders = set()
            for r, sd in members:
                orders.add(tuple(a.line for a in r.log))
                if r.canon() != c0:
                    viols.append(('schedule-dependent', f'same inputs, different outcome: {_brief(members[0][0])} vs {_brief(r)}', sd))
            cnt['reorderings'] += len(orders) - 1
    if pid in ('C01', 'C04', 'C05') and any(l['form'] == 'b' for l in prog):
        # both forms requested, in both orders
        rab = e2a.execute(prog, env, schedule=world.Schedule('natural'), requested=('a', 'b'), forms=forms)
        rba = e2a.execute(prog, env, schedule=world.Schedule('natural'), requested=('b', 'a'), forms=forms)
        cnt['executions'] += 2
        for rr, req in ((rab, ['a', 'b']), (rba, ['b', 'a'])):
            if pid == 'C01':
                for kind, msg in refeval.compare(rr, refeval.Ref(forms, req, rr.final_inputs).run()):
                    viols.append((kind, f'requested {req}: {msg}', {'requested': req}))
            elif pid == 'C04':
                errs, _ = monitors.c04(forms, req, rr)
                for kind, msg in errs:
                    viols.append((kind, f'requested {req}: {msg}', {'requested': req}))
        if pid == 'C05' and rab.final_inputs == rba.final_inputs and rab.canon() != rba.canon():
            viols.append(('request-order-dependent', f'requested [a, b] vs [b, a]: {_brief(rab)} vs {_brief(rba)}', None))
    if pid in ('C01', 'C04') and 'm:' in repr(prog):
        # a multi-copy form requested by its bare name and as a numbered copy, in both orders, next to 'a'
        for req in (['m', 'm:0', 'a'], ['m:0', 'm', 'a'], ['a', 'm', 'm:1']):
            rr = e2a.execute(prog, env, schedule=world.Schedule('natural'), requested=tuple(req), forms=forms)
            cnt['executions'] += 1
            if pid == 'C01':
                for kind, msg in refeval.compare(rr, refeval.Ref(forms, req, rr.final_inputs).run()):
                    viols.append((kind, f'requested {req}: {msg}', {'requested': req}))
            else:
                errs, _ = monitors.c04(forms, req, rr)
                for kind, msg in errs:
                    viols.append((kind, f'requested {req}: {msg}', {'requested': req}))
    if pid in ('C01', 'C04') :
        # specifically requested optional lines: Solver.solve(forms, field_names)
        for l in prog:
            if l['form'] == 'a' and not l['req']:
                line = f"a.{l['name']}"
                ans = world.scripted_answer(env['answers'])
                rq = world.run_solve(forms, ['a'], env['file'], answer=ans, schedule=world.Schedule('natural'), field_names=[line])
                cnt['executions'] += 1
                if pid == 'C01':
                    refq = refeval.Ref(forms, ['a'], rq.final_inputs, requested_lines=[line]).run()
                    for kind, msg in refeval.compare(rq, refq):
                        viols.append((kind, f'requested line {line}: {msg}', {'field_names': [line]}))
                else:
                    errs, closure = monitors.c04(forms, ['a'], rq, requested_lines=[line])
                    for kind, msg in errs:
                        viols.append((kind, f'requested line {line}: {msg}', {'field_names': [line]}))
    if pid in ('C01', 'C04'):
        # a line named in field_names whose form is not among the requested ones: aborting is fine; returning success
        # without that line is not
        for l in prog:
            if l['form'] == 'b':
                line = f"b.{l['name']}"
                rq = world.run_solve(forms, ['a'], env['file'], answer=world.scripted_answer(env['answers']), schedule=world.Schedule('natural'), field_names=[line])
                cnt['executions'] += 1
                if rq.exc is None and rq.verdict and l['name'] not in rq.solution.get('b', {}):
                    viols.append(('named-line-missing', f'solve([a], field_names=[{line}]) returns True without a value for {line}', {'field_names': [line]}))
    if pid == 'C01' and r0.exc is None:
        # histories on one store: solve; delete one supplied input from the SAME store object; solve again (no prompt).
        # The second solve must be the fixed point of the reduced inputs (nothing remembered from the first).
        for name in sorted(r0.final_inputs):
            st = r0.store
            saved = st.config.get(*name.split('.'))
            try:
                del st[name]
            except Exception:
                continue
            rd = world.run_solve(forms, ['a'], None, answer=None, schedule=world.Schedule('natural'), store=st)
            cnt['executions'] += 1
            refd = refeval.Ref(forms, ['a'], rd.final_inputs).run()
            for kind, msg in refeval.compare(rd, refd):
                viols.append(('after-delete:' + kind, f'solve, delete {name} from the same store, solve again: {msg}', None))
            if name in rd.final_inputs:
                viols.append(('delete-ignored', f'{name} still supplied after deletion', None))
            sec, key = name.split('.')
            if not st.config.has_section(sec):
                st.config.add_section(sec)
            st.config.set(sec, key, saved)
    if pid == 'C01' and any(l['form'] == 'b' for l in prog):
        # histories on one Solver: solve(first); solve(second) where the second form was not pulled in by the first.
        # What the second call returns must be the verdict for both requests together (a verdict is not remembered
        # from the previous call).
        for first, second in (('a', 'b'), ('b', 'a')):
            r1 = world.run_solve(forms, [first], env['file'], answer=None, schedule=world.Schedule('natural'), keep_solver=True)
            cnt['executions'] += 1
            s = r1.solver
            if r1.exc is not None or second in s.forms:
                continue
            try:
                with world.cpu_limit():
                    v2 = s.solve([second])
            except world.NonTermination as e:
                viols.append(('second-call:non-termination', f'solve([{first}]) then solve([{second}]): {e}', None))
                continue
            except Exception:
                continue            # an abort is an allowed outcome
            cnt['executions'] += 1
            cnt['second_calls'] = cnt.get('second_calls', 0) + 1
            problems = (sorted(s.unimplemented_fields()), sorted(k for k, v in s.unmet_input_dependencies().items() if v),
                        sorted(k for k, v in s.unmet_field_dependencies().items() if v))
            if v2 and any(problems):
                viols.append(('second-call:silent-success', f'solve([{first}]) then solve([{second}]) on one Solver returns True with '
                              f'unimplemented={problems[0]} missing inputs={problems[1]} blocked={problems[2]}', None))
            ref2 = refeval.Ref(forms, [first, second], r1.final_inputs).run()
            if ref2.abort is None and bool(v2) != ref2.solved():
                viols.append(('second-call:verdict', f'solve([{first}]) then solve([{second}]) returns {v2}; both requests together: solved={ref2.solved()}', None))
    if pid == 'C13' and r0.exc is None and r0.refused:
        # history on one Solver: the user declines a question; the declined inputs are then supplied in the store; a
        # second solve() on the same Solver must not ask for anything the store now supplies
        rs = world.run_solve(forms, ['a'], env['file'], answer=world.scripted_answer(env['answers']), schedule=world.Schedule('natural'), keep_solver=True)
        cnt['executions'] += 1
        if rs.exc is None:
            declined = [p[0] for p in rs.prompts if p[2] is None]
            try:
                for name in declined:
                    rs.store[name] = 'yes' if name.endswith('.p') else '1'
                n0 = len(rs.prompts)
                with world.cpu_limit():
                    rs.solver.solve(['a'])
                cnt['executions'] += 1
                again = [p[0] for p in rs.prompts[n0:] if p[0] in declined]
                if again:
                    viols.append(('asked-supplied', f'declined {declined}, supplied them, second solve() on the same Solver asks for {again}', None))
            except Exception:
                pass
    if pid == 'C13' and r0.exc is None and not r0.refused:
        # write back -> second run asks nothing and reproduces the solution
        env2 = dict(file=dict(r0.final_inputs), answers={})
        r2 = e2a.execute(prog, env2, schedule=world.Schedule('natural'), forms=forms)
        cnt['executions'] += 1
        if r2.prompts and r0.verdict:
            viols.append(('second-run-asks', f'second run on the written-back file asked for {[p[0] for p in r2.prompts]}', None))
        if r0.verdict and r2.canon() != r0.canon():
            viols.append(('second-run-differs', f'{_brief(r0)} vs {_brief(r2)}', None))
        # inputs never read are not required
        read = set()
        for a in r0.log:
            for kind, name, st, val in a.reads:
                if kind == 'i' and st == 'ok':
                    read.add(name)
        env3 = dict(file={k: v for k, v in r0.final_inputs.items() if k in read}, answers={})
        r3 = e2a.execute(prog, env3, schedule=world.Schedule('natural'), forms=forms)
        cnt['executions'] += 1
        if r3.canon() != r0.canon():
            viols.append(('unread-input-required', f'dropping never-read inputs changes the outcome: {_brief(r0)} vs {_brief(r3)}', None))
    return viols, cnt, r0.outcome_class()


def _brief(r):
    if r.exc is not None:
        return f'abort {r.exc}'
    return f'verdict={r.verdict} solution={r.solution} unimpl={sorted(r.unimpl)} needs={ {k: sorted(v) for k, v in r.need_inputs.items()} } blocked={ {k: sorted(v) for k, v in r.blocked.items()} }'


def _work(arg):
    pid, progs, reduced = arg
    out_v = []
    counters = {}
    outcomes = {}
    nprog = ncase = 0
    for prog in progs:
        if len(out_v) >= 8:
            # this chunk has produced its counterexamples; with a broken solver every further case may cost seconds
            # (non-termination is cut off by a processor-time limit), so the rest of the chunk is counted, not run
            counters['programs_skipped_after_violations'] = counters.get('programs_skipped_after_violations', 0) + 1
            continue
        forms = e2a.build_forms(prog)
        nprog += 1
        for env in e2a.environments(prog, reduced=reduced):
            ncase += 1
            viols, cnt, oc = check_case(prog, env, pid, forms=forms, sched_cap=48 if reduced else 160)
            for k, v in cnt.items():
                counters[k] = counters.get(k, 0) + v
            outcomes[oc] = outcomes.get(oc, 0) + 1
            for kind, msg, sd in viols:
                if len(out_v) < 50:
                    out_v.append((kind, msg, dict(engine='e2a', prog=prog, env=env, schedule=sd)))
    counters['programs'] = nprog
    counters['cases'] = ncase
    return out_v, counters, outcomes


def program_sets(tier):
    """list of (label, generator) for the tier"""
    sets = [('N=1,K<=3', lambda: e2a.programs(1, 3)),
            ('N=2,K<=2,total<=3', lambda: e2a.programs(2, 2, total_ops=3)),
            ('N=3,K<=1,core ops,one form', lambda: e2a.programs(3, 1, rich=False, forms=('a',))),
            ('N=3,K<=1,core ops,lines a a b', lambda: e2a.programs(3, 1, rich=False, place_filter=lambda pl: [f for f, r in pl] == ['a', 'a', 'b'])),
            ('N=2,K<=1,colliding names', lambda: e2a.programs(2, 1, naming='collide')),
            ('N=3,K<=1,core ops,lines a b b / a a b,same base names', lambda: e2a.programs(3, 1, rich=False, naming='perform',
                                                                      place_filter=lambda pl: [f for f, r in pl] in (['a', 'b', 'b'], ['a', 'a', 'b']))),
            ('N=3,K<=1,core ops,one form,colliding names', lambda: (p for p in e2a.programs(3, 1, rich=False, forms=('a',), naming='collide')
                                                                     if sum(len(l['body']) for l in p) <= 2))]
    if tier == 'thorough':
        sets += [('N=3,K<=1,core ops', lambda: e2a.programs(3, 1, rich=False)),
                 ('N=2,K<=2', lambda: e2a.programs(2, 2)),
                 ('N=3,K<=2,total<=3,core ops', lambda: e2a.programs(3, 2, total_ops=3, rich=False))]
    return sets


def explore(run, pid, tier, chunk=40):
    """run: runner.Run; explores all program sets of the tier"""
    seed = run.seed
    for label, gen in program_sets(tier):
        progs = list(gen())
        progs = runner.rotate(progs, seed)
        chunks = [(pid, progs[i:i + chunk], tier == 'quick') for i in range(0, len(progs), chunk)]
        res = runner.pmap(_work, chunks, chunksize=1)
        total = {}
        for out_v, counters, outcomes in res:
            for k, v in counters.items():
                total[k] = total.get(k, 0) + v
            for oc, n in outcomes.items():
                run.outcome(('e2a', oc))
                run.count('e2a_outcome:' + oc, n)
            for kind, msg, case in out_v:
                key = f'{pid}|e2a|{kind}|' + json.dumps(prog_text(case['prog']))
                run.violation(key, case, msg)
        if total.get('programs_skipped_after_violations'):
            run.count('e2a.programs_skipped_after_violations', total['programs_skipped_after_violations'])
        run.count(f'e2a[{label}].programs', total.get('programs', 0))
        run.count(f'e2a[{label}].cases', total.get('cases', 0))
        run.count(f'e2a[{label}].executions', total.get('executions', 0))
        run.count('e2a.schedule_permutations_run', total.get('schedules', 0))
        run.count('e2a.reorderings_observed', total.get('reorderings', 0))
        run.count('e2a.schedule_caps_hit', total.get('schedule_caps', 0))
        run.evaluations += total.get('executions', 0)
        run.states += total.get('cases', 0)
        run.transitions += total.get('executions', 0)
        run.traces += total.get('executions', 0)
        if progs:
            run.sample(dict(engine='e2a', set=label, program=prog_text(progs[len(progs) // 2])))
        if len(run.violations) >= 200:
            # the check has failed two hundred times over: the remaining program sets are not explored
            run.count('e2a.program_sets_skipped_after_violations', 1)
            break


def replay_case(case, pid):
    viols, cnt, oc = check_case(case['prog'], case['env'], pid)
    return viols
