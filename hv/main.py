import argparse, importlib, json, sys


def main():
    ap = argparse.ArgumentParser()
    ap.add_argument('pid')
    ap.add_argument('--tier', default=None)
    ap.add_argument('--replay', default=None)
    a = ap.parse_args()
    import os
    tier = a.tier or os.environ.get('VERIF_TIER') or 'quick'
    mod = importlib.import_module(f'hv.props.{a.pid.lower()}')
    if a.replay:
        with open(a.replay) as f:
            rec = json.load(f)
        ok, msg = mod.replay(rec['case'])
        if ok:
            print(f'replay: no violation ({msg})')
            sys.exit(0)
        print(f'VIOLATION property={a.pid} replay={a.replay}')
        print(f'  {msg}')
        sys.exit(1)
    sys.exit(mod.run(tier))


if __name__ == '__main__':
    main()
