import argparse, importlib, json, sys


def main():
    ap = argparse.ArgumentParser()
    ap.add_argument('pid')
    ap.add_argument('--tier', default=None)
    ap.add_argument('--replay', default=None)
    a = ap.parse_args()
    import os
    tier = a.tier or os.environ.get('VERIF_TIER') or 'quick'
    # overall watchdog: a check must never hang (a solve that does not terminate inside a worker would block the pool)
    import signal

    def _timeout(signum, frame):
        print(f'HARNESS-ERROR: {a.pid} {tier} did not finish within its time budget (a worker may be stuck in a non-terminating solve)', file=sys.stderr)
        import multiprocessing
        for ch in multiprocessing.active_children():
            try:
                ch.kill()
            except Exception:
                pass
        os._exit(3)
    signal.signal(signal.SIGALRM, _timeout)
    signal.alarm(int(os.environ.get('HV_TIMEOUT', 3000 if tier == 'quick' else 8 * 3600)))
    mod = importlib.import_module(f'hv.props.{a.pid.lower()}')
    if a.replay:
        with open(a.replay) as f:
            rec = json.load(f)
        ok, msg = mod.replay(rec['case'])
        if ok:
            print(f'replay: no violation ({msg})')
            sys.exit(0)
        print(f'VIOLATION property={a.pid} replay={a.replay}')
        print(f'  {msg}')
        sys.exit(1)
    sys.exit(mod.run(tier))


if __name__ == '__main__':
    main()
