"""Generates /verif/MANIFEST.json from the table below (python3 -m hv.mkmanifest)."""
import json, os, sys

HERE = os.path.dirname(os.path.dirname(os.path.abspath(__file__)))

MC = 'model_checking'
EX = 'exploration'
FE = 'fault_enumeration'

CHECKS = {
    # pid: (category, technique, text, note, design_ref)
    'C01': (MC, 'explicit-state exploration of generated programs x environments x schedules on the real Solver, against a chaotic-iteration reference evaluator; prompt-tree exploration of real returns',
            'Every generated program up to the size bound, every input environment and rank permutation, and every return within d deviations of the base returns is executed on the real solver; verdict, diagnostics and abort are compared with an independent least-fixed-point evaluator.',
            'Trusted: refeval (60 lines, no queue/trackers), the form definitions as subject. Bounds in evidence.', '5/C01'),
    'C03': (MC, 'exhaustive bounded exploration of programs/returns x schedules; oracle = re-evaluation of every stored value on the final stores',
            'For every explored execution each solution value is re-read and its definition re-run on the final inputs and values; attempt logs show no stale reads.',
            'Trusted: the harness accessors. Values outside the alphabets not reached.', '5/C03'),
    'C04': (MC, 'exhaustive bounded exploration; oracle = demand closure computed from re-evaluation read sets',
            'Solution sections/keys and Solver.forms are compared with the closure of the requested forms under the read sets of the line definitions.',
            'Trusted: closure computation in monitors.c04.', '5/C04'),
    'C05': (MC, 'exhaustive enumeration of rank permutations (through the HABUTAX_VERIF hook), file/prompt splits, layouts and request orders; equality within input-equivalent groups',
            'All executions sharing year, requested forms and final input values must have the identical canonical outcome.',
            'The hook expresses static priorities over names (see DESIGN 1).', '5/C05'),
    'C06': (MC, 'explicit-state BFS of DependencyTracker histories against a dict model; bounded-work counters on all generated-program executions; adversarial-line state graph of Solver.solve()',
            'All operation histories up to the depth bound on the real tracker; every generated program execution is checked for attempts <= 1 + distinct waits and prompts <= 1 per input.',
            'Trusted: the dict model (e1.Model).', '5/C06'),
    'C07': (EX, 'exhaustive enumeration of figure_tax over every whole dollar 0..99,999 x 5 statuses x 3 years, row edges, bracket boundaries and a fixed grid to 1e12, against independently written statutory brackets (midpoint rule / bracket formula)',
            'Every whole-dollar taxable income below $100,000 and every boundary above is evaluated on the shipped figure_tax and compared with statutory.py; monotonicity, marginal-rate bound and QSS==MFJ checked on the same enumeration.',
            'Trusted: hv/statutory.py (brackets from Rev. Proc. 2020-45/2021-45/2022-38), cross-checked: reproduces every shipped table cell and worksheet constant.', '5/C07'),
    'C11': (EX, 'exhaustive enumeration of all strings <= L over a 26-symbol alphabet x 9 input kinds x 3 routes (spec, INI file/InputStore, prompt loop + store) and a line-level route on the real Solver',
            'valid() <=> value() succeeds; store yields a value only for valid text, InvalidInput otherwise, MissingInput for absent keys; values have the declared type, are finite and equal an independent parse for plain numerals.',
            'Trusted: the recognisers in c11.expected(). Strings longer than L (quick 4, thorough 5) or outside the alphabet not covered.', '5/C11'),
    'C12': (MC, 'exhaustive product field class x places x 44-value alphabet directly and through the Solver; monitors on every stored/read value of the explored real returns (E3)',
            'Exact declared type or TypeError naming the line; money rounded (independent decimal rounding) before any reader sees it; blank -> empty value; mirror lines of input forms have the matching type.',
            'Trusted: decimal-based rounding oracle.', '5/C12'),
    'C13': (MC, 'exhaustive bounded exploration with prompt logs; solve -> write back -> solve histories',
            'Prompt arguments are compared with the attempt/read log; the second run on the written-back inputs must ask nothing and reproduce the outcome; never-read inputs are dropped and the outcome must not change.',
            'Trusted: attempt logging wrappers.', '5/C13'),
    'C14': (EX, 'exhaustive enumeration of typed value alphabets and all text <= L over a 12-symbol alphabet through to_config -> write -> the real fill_pdfs() reader -> PDFFiller; every explored real return through the CLI',
            'Every value written is read back through the same path the PDF filler uses and compared (numbers/booleans exactly, enumerations by member, text up to surrounding whitespace); tax_year and year-specific forms/templates checked on real returns.',
            'Text equality up to strip() of the value and of each physical line. One known finding (comment-char continuation lines).', '5/C14'),
    'C18': (EX, 'exhaustive check of all ~1800 (form instance, mapping) pairs of all years against field trees parsed from the bundled PDFs by a home-made reader (XFA + AcroForm)',
            'Existence, line labels (speak text / NC field names with an explicit errata table), export values, length limits, duplicates, exclusive groups for every driving value, fileable forms have template and mappings.',
            'Trusted: hv/pdfread.py (self-checked XFA vs AcroForm on all 39 templates), errata table in c18.py.', '5/C18'),
    'C19': (EX, 'exhaustive enumeration of strings <= L over {( ) \\ \' " a space} through the real _create_fdf decoded by an independent PDF literal-string reader; every solved explored return through `solve --solution` + `fill-pdfs` with a stand-in pdftk',
            'FDF decodes to exactly the mapped (name, text) list; the forms filled, their templates, once each, and the cat order equal an independent filing table; length/choice limits refuse at limit+1.',
            'Trusted: c19.read_fdf, c19.FILING. Printable ASCII only.', '5/C19'),
}

NOT_YET = {}


def main():
    checks = []
    for pid in sorted(CHECKS):
        cat, tech, text, note, ref = CHECKS[pid]
        checks.append(dict(
            property_id=pid,
            quick_cmd=f'./check {pid} --tier quick',
            thorough_cmd=f'./check {pid} --tier thorough',
            evidence_file=f'/verif/evidence/{pid}.json',
            replay_cmd_template=f'./check {pid} --replay {{path}}',
            engine='hv',
            level_claimed=dict(category=cat, text=text, design_ref='DESIGN.md section ' + ref),
            level_note=note,
            technique=tech,
        ))
    props = [json.loads(l)['id'] for l in open(os.path.join(HERE, 'properties.jsonl'))]
    na = [dict(property_id=p, reason=NOT_YET.get(p, 'check not built yet in this round (planned, see DESIGN.md section 5)'))
          for p in props if p not in CHECKS]
    m = dict(
        version=1,
        setup_cmd='./check SELFTEST',
        hooks=dict(
            guard='HABUTAX_VERIF',
            enable='./check exports HABUTAX_VERIF=1 and imports /repo in place (sys.path[0]); habutax.solver.sort_keys then consults solver._verif_key when a harness installed one',
            baseline_off_cmd='cd /repo && /venv/bin/python -m pytest -ra -q -p no:cacheprovider --timeout=900 --continue-on-collection-errors',
            source_commits=['575b752'],
            add_only=True,
        ),
        engines=[
            dict(name='hv', path='/verif/hv', serves_properties=sorted(CHECKS),
                 kind_free_text='hand-written explicit-state / stateless explorers that execute the real habutax code: tracker history BFS (e1), generated programs (e2a), adversarial line (e2b), prompt-tree of real returns (e3), per-line open environment (e4), alphabets (e5), CLI sessions (e6), template reader (e7)'),
        ],
        checks=checks,
        notes='All checks run with /venv/bin/python against /repo (working tree). See DESIGN.md.',
        not_applicable=na,
    )
    with open(os.path.join(HERE, 'MANIFEST.json'), 'w') as f:
        json.dump(m, f, indent=1)
    print('MANIFEST.json written:', len(checks), 'checks,', len(na), 'not claimed')


if __name__ == '__main__':
    main()
