"""Generates /verif/MANIFEST.json from the table below (python3 -m hv.mkmanifest)."""
import json, os, sys

HERE = os.path.dirname(os.path.dirname(os.path.abspath(__file__)))

MC = 'model_checking'
EX = 'exploration'
FE = 'fault_enumeration'

CHECKS = {
    # pid: (category, technique, text, note, design_ref)
    'C01': (MC, 'explicit-state exploration of generated programs x environments x schedules on the real Solver, against a chaotic-iteration reference evaluator; prompt-tree exploration of real returns',
            'Every generated program up to the size bound, every input environment and rank permutation, and every return within d deviations of the base returns is executed on the real solver; verdict, diagnostics and abort are compared with an independent least-fixed-point evaluator.',
            'Trusted: refeval (60 lines, no queue/trackers), the form definitions as subject. Bounds in evidence.', '5/C01'),
    'C02': (MC, 'deviation-bounded exploration of real returns (prompt tree) and isolated line definitions under an open environment; every computed line compared with an instruction oracle built from the bundled template speak texts (instruction grammar) and cited transcriptions',
            'Every line with an oracle entry in every explored (complete or partial) solution equals the official instruction applied to the other lines of the same solution; carries are compared on both ends; non-triviality counted per line.',
            'Trusted: hv/c02oracle.py transcriptions (cited), hv/c02_template_rules.py grammar, hv/pdfread.py. Lines without an oracle are listed in evidence and not claimed. Form 1040 line 37 read as 24 - 33 (C15). One known finding.', '5/C02'),
    'C03': (MC, 'exhaustive bounded exploration of programs/returns x schedules; oracle = re-evaluation of every stored value on the final stores',
            'For every explored execution each solution value is re-read and its definition re-run on the final inputs and values; attempt logs show no stale reads.',
            'Trusted: the harness accessors. Values outside the alphabets not reached.', '5/C03'),
    'C04': (MC, 'exhaustive bounded exploration; oracle = demand closure computed from re-evaluation read sets',
            'Solution sections/keys and Solver.forms are compared with the closure of the requested forms under the read sets of the line definitions.',
            'Trusted: closure computation in monitors.c04.', '5/C04'),
    'C05': (MC, 'exhaustive enumeration of rank permutations (through the HABUTAX_VERIF hook), file/prompt splits, layouts and request orders; equality within input-equivalent groups',
            'All executions sharing year, requested forms and final input values must have the identical canonical outcome.',
            'The hook expresses static priorities over names (see DESIGN 1).', '5/C05'),
    'C06': (MC, 'explicit-state BFS of DependencyTracker histories against a dict model; bounded-work counters on all generated-program executions; adversarial-line state graph of Solver.solve()',
            'All operation histories up to the depth bound on the real tracker; every generated program execution is checked for attempts <= 1 + distinct waits and prompts <= 1 per input.',
            'Trusted: the dict model (e1.Model).', '5/C06'),
    'C07': (EX, 'exhaustive enumeration of figure_tax over every whole dollar 0..99,999 x 5 statuses x 3 years, row edges, bracket boundaries and a fixed grid to 1e12, against independently written statutory brackets (midpoint rule / bracket formula)',
            'Every whole-dollar taxable income below $100,000 and every boundary above is evaluated on the shipped figure_tax and compared with statutory.py; monotonicity, marginal-rate bound and QSS==MFJ checked on the same enumeration.',
            'Trusted: hv/statutory.py (brackets from Rev. Proc. 2020-45/2021-45/2022-38), cross-checked: reproduces every shipped table cell and worksheet constant.', '5/C07'),
    'C08': (EX, 'exhaustive enumeration of (year, status, statutory amount) triples: witness returns on the real solver (echo lines), pairs of returns one cent/dollar either side of each gating threshold, single-line evaluation for amounts only visible on aborting paths; independent table + amounts printed in the templates',
            '763 of 780 triples are witnessed (17 listed as unwitnessed with reasons); echoed lines equal hv/statutory_amounts.py, gated outcomes flip exactly at the official value, printed template amounts agree.',
            'Trusted: hv/statutory_amounts.py (Rev. Proc. 2020-45/2021-45/2022-38, form instructions, NC D-401), cross-checked against template text and hv/statutory.py.', '5/C08'),
    'C09': (MC, 'deviation-bounded exploration of real returns (prompt tree) with a frozen gate table: (A) gate lines reading yes never coexist with a solved verdict, (B) every frozen declared-unsupported context re-declared via prompt and via file must not solve',
            'All boolean inputs are flipped in every base return (d<=1; thorough d<=2) and the over-limit amount gates are driven; the table hv/gates.json (1132 contexts, 420 (line,input) gate pairs derived by E4) pins what must keep refusing.',
            'Trusted: hv/gates.json, generated on the repaired tree by tools/mk_gates.py and reviewed; entries must be retired if habutax implements a situation.', '5/C09'),
    'C10': (MC, 'stateless DFS over the answer vectors of an open environment for every line definition (E4), resolving every executed reference against the year catalogue; dynamic net over explored real returns',
            'Every line definition of every form/instance/year is executed under all type-correct answers (full product when it fits, else deviation-bounded) with exact reference-site coverage accounting; unresolved names, AttributeError/NameError/KeyError/AssertionError/RecursionError are violations.',
            'Claimed for executed paths only; unreached reference sites are listed in evidence. Known findings: number_dependents > 4.', '5/C10'),
    'C11': (EX, 'exhaustive enumeration of all strings <= L over a 26-symbol alphabet x 9 input kinds x 3 routes (spec, INI file/InputStore, prompt loop + store) and a line-level route on the real Solver',
            'valid() <=> value() succeeds; store yields a value only for valid text, InvalidInput otherwise, MissingInput for absent keys; values have the declared type, are finite and equal an independent parse for plain numerals.',
            'Trusted: the recognisers in c11.expected(). Strings longer than L (quick 4, thorough 5) or outside the alphabet not covered.', '5/C11'),
    'C12': (MC, 'exhaustive product field class x places x 44-value alphabet directly and through the Solver; monitors on every stored/read value of the explored real returns (E3)',
            'Exact declared type or TypeError naming the line; money rounded (independent decimal rounding) before any reader sees it; blank -> empty value; mirror lines of input forms have the matching type.',
            'Trusted: decimal-based rounding oracle.', '5/C12'),
    'C13': (MC, 'exhaustive bounded exploration with prompt logs; solve -> write back -> solve histories',
            'Prompt arguments are compared with the attempt/read log; the second run on the written-back inputs must ask nothing and reproduce the outcome; never-read inputs are dropped and the outcome must not change.',
            'Trusted: attempt logging wrappers.', '5/C13'),
    'C14': (EX, 'exhaustive enumeration of typed value alphabets and all text <= L over a 12-symbol alphabet through to_config -> write -> the real fill_pdfs() reader -> PDFFiller; every explored real return through the CLI',
            'Every value written is read back through the same path the PDF filler uses and compared (numbers/booleans exactly, enumerations by member, text up to surrounding whitespace); tax_year and year-specific forms/templates checked on real returns.',
            'Text equality up to strip() of the value and of each physical line. One known finding (comment-char continuation lines).', '5/C14'),
    'C18': (EX, 'exhaustive check of all ~1800 (form instance, mapping) pairs of all years against field trees parsed from the bundled PDFs by a home-made reader (XFA + AcroForm)',
            'Existence, line labels (speak text / NC field names with an explicit errata table), export values, length limits, duplicates, exclusive groups for every driving value, fileable forms have template and mappings.',
            'Trusted: hv/pdfread.py (self-checked XFA vs AcroForm on all 39 templates), errata table in c18.py.', '5/C18'),
    'C19': (EX, 'exhaustive enumeration of strings <= L over {( ) \\ \' " a space} through the real _create_fdf decoded by an independent PDF literal-string reader; every solved explored return through `solve --solution` + `fill-pdfs` with a stand-in pdftk',
            'FDF decodes to exactly the mapped (name, text) list; the forms filled, their templates, once each, and the cat order equal an independent filing table; length/choice limits refuse at limit+1.',
            'Trusted: c19.read_fdf, c19.FILING. Printable ASCII only.', '5/C19'),
    'C15': (MC, 'deviation-bounded exploration of real returns; balance identities and a transcribed non-negative line list evaluated on every solved return',
            'Federal and NC balance identities (34-37 = 33-24, one side zero, refund split; NC 25/19/26a/28/34) and non-negativity of ~90 lines on every solved explored return with non-negative inputs.',
            'Trusted: e3mon.NONNEG transcription.', '5/C15'),
    'C16': (MC, 'pairs of explored states: every solved return x all instance renumberings (<=3 copies) x every wage/withholding/expense input raised by {1,50,1000,100000}',
            'Renumbering changes nothing but listing order; wages up => total tax not lower; deductible expense up => not higher; withholding +d => refund-minus-owed +d exactly; only pairs in which both solve.',
            'Input classification lists in e3mon (WITHHOLDING, EXPENSES).', '5/C16'),
    'C17': (EX, 'exhaustive enumeration of (year, form class, allowed instance), (threshold table, status) pairs, list-forms filters and list-form-inputs templates parsed back as INI',
            'Instantiation, declared year, metadata, unique/lower-case/dot-free names, sequence number and template for fileable forms, exactly-one threshold match per status, CLI listings parse back to exactly the form inputs.',
            'Inline status switches in line code are covered by C10/C08 instead.', '5/C17'),
    'C20': (FE, 'exhaustive enumeration of interruption points: every prompt index k x {Ctrl-C, Ctrl-C at re-prompt, EOF, unsupported form after k answers, failing line after k answers} x start file {none, empty, half}, real habutax.solve(args) in process, followed by a second run',
            'After every interrupted session the file parses, keeps every prior value and every answer given, and the second run does not ask for them again.',
            'Crash points inside open()/write() of the write-back are not enumerated (not listed by the property).', '5/C20'),
}

NOT_YET = {}


def main():
    checks = []
    for pid in sorted(CHECKS):
        cat, tech, text, note, ref = CHECKS[pid]
        checks.append(dict(
            property_id=pid,
            quick_cmd=f'./check {pid} --tier quick',
            thorough_cmd=f'./check {pid} --tier thorough',
            evidence_file=f'/verif/evidence/{pid}.json',
            replay_cmd_template=f'./check {pid} --replay {{path}}',
            engine='hv',
            level_claimed=dict(category=cat, text=text, design_ref='DESIGN.md section ' + ref),
            level_note=note,
            technique=tech,
        ))
    props = [json.loads(l)['id'] for l in open(os.path.join(HERE, 'properties.jsonl'))]
    na = [dict(property_id=p, reason=NOT_YET.get(p, 'check not built yet in this round (planned, see DESIGN.md section 5)'))
          for p in props if p not in CHECKS]
    m = dict(
        version=1,
        setup_cmd='./check SELFTEST',
        hooks=dict(
            guard='HABUTAX_VERIF',
            enable='./check exports HABUTAX_VERIF=1 and imports /repo in place (sys.path[0]); habutax.solver.sort_keys then consults solver._verif_key when a harness installed one',
            baseline_off_cmd='cd /repo && /venv/bin/python -m pytest -ra -q -p no:cacheprovider --timeout=900 --continue-on-collection-errors',
            source_commits=['575b752'],
            add_only=True,
        ),
        engines=[
            dict(name='hv', path='/verif/hv', serves_properties=sorted(CHECKS),
                 kind_free_text='hand-written explicit-state / stateless explorers that execute the real habutax code: tracker history BFS (e1), generated programs (e2a), adversarial line (e2b), prompt-tree of real returns (e3), per-line open environment (e4), alphabets (e5), CLI sessions (e6), template reader (e7)'),
        ],
        checks=checks,
        notes='All checks run with /venv/bin/python against /repo (working tree). See DESIGN.md.',
        not_applicable=na,
    )
    with open(os.path.join(HERE, 'MANIFEST.json'), 'w') as f:
        json.dump(m, f, indent=1)
    print('MANIFEST.json written:', len(checks), 'checks,', len(na), 'not claimed')


if __name__ == '__main__':
    main()
