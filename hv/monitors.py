"""Per-execution monitors shared by the generated-program engine (E2a) and the
real-return engine (E3).  Each returns a list of (kind, message)."""
import collections

import hv
from hv import refeval, world


# -- C01 -----------------------------------------------------------------
def c01(form_list, requested, result):
    ref = refeval.Ref(form_list, requested, result.final_inputs).run()
    return refeval.compare(result, ref), ref


# -- C03 -----------------------------------------------------------------
def c03(form_list, result):
    """every value in the solution is a fixed point of its definition"""
    errs = []
    ref, res, perr = refeval.reevaluate(form_list, result.final_inputs, result.solution)
    for line, e in perr.items():
        errs.append(('unreadable', f'{line}: {e}'))
    for line, r in res.items():
        stored = ref.values[line]
        if r[0] != 'value':
            errs.append(('not-a-fixed-point', f'{line}: stored {stored!r} but re-evaluation on the final stores gives {r[:3]}'))
        elif r[1] != stored or type(r[1]) is not type(stored):
            errs.append(('not-a-fixed-point', f'{line}: stored {stored!r} but its definition yields {r[1]!r} on the final stores'))
    # the attempt that stored each value read only things that are still true
    if result.log is not None:
        last = {}
        for a in result.log:
            if a.outcome and a.outcome[0] == 'value':
                last[a.line] = a
        for line, a in last.items():
            for kind, name, st, val in a.reads:
                if st != 'ok':
                    continue
                if kind == 'v' and not isinstance(val, world.Membership):
                    if name in ref.values and ref.values[name] != val:
                        errs.append(('stale-read', f'{line} was computed from {name}={val!r} but the solution holds {ref.values[name]!r}'))
    return errs, (ref, res)


# -- C04 -----------------------------------------------------------------
def c04(form_list, requested, result, reeval=None, requested_lines=()):
    """solution == demand closure (computed from re-evaluation read sets)"""
    errs = []
    if result.exc is not None:
        return errs, None
    if getattr(result, 'solution_unstable', None):
        errs.append(('solution-not-stable', f'asking the solver for its solution again after the caller modified the first copy gives a different solution: {result.solution_unstable}'))
    if reeval is None:
        ref, res, _ = refeval.reevaluate(form_list, result.final_inputs, result.solution)
    else:
        ref, res = reeval
    res = dict(res)
    closure = []
    cset = set()
    forms_in = set()

    def add_form(sec):
        if sec in forms_in:
            return
        forms_in.add(sec)
        if sec not in ref.forms:
            try:
                f = ref._instantiate(sec)
            except refeval.Abort:
                return
            ref.forms[sec] = f
            ref.spec_forms.setdefault(sec, f)
            for fld in f.fields():
                ref.fields[fld.name()] = fld
        for fld in ref.forms[sec].required_fields():
            add(fld.name())

    def add(line):
        if line not in cset:
            cset.add(line)
            closure.append(line)

    for r in requested:
        add_form(r)
    for line in requested_lines:
        add(line)
    i = 0
    why = {}
    while i < len(closure):
        line = closure[i]
        i += 1
        if line not in res:
            res[line] = refeval.eval_line(ref, line)
        r = res[line]
        reads = r[-1]
        targets = [n for k, n, v in reads if k == 'v']
        if r[0] == 'wait' and r[1] == 'v':
            targets.append(r[2])
        for t in targets:
            sec = t.split('.')[0]
            add_form(sec)
            if t not in cset:
                why[t] = line
            add(t)
    sol_lines = set(f'{sec}.{k}' for sec, kv in result.solution.items() for k in kv)
    extra = sol_lines - cset
    if extra:
        errs.append(('not-demanded', f'solution contains {sorted(extra)[:5]} which no requested form or evaluated line refers to'))
    if result.verdict:
        missing = cset - sol_lines
        if missing:
            errs.append(('missing-from-solved', f'solved return lacks demanded lines {sorted(missing)[:5]} (e.g. read by {why.get(sorted(missing)[0])})'))
        if set(result.forms) != forms_in:
            errs.append(('forms', f'Solver.forms={sorted(result.forms)} closure forms={sorted(forms_in)}'))
        if set(result.solution) != set(l.split('.')[0] for l in cset):
            errs.append(('sections', f'sections {sorted(result.solution)} vs closure {sorted(set(l.split(".")[0] for l in cset))}'))
    else:
        missing = cset - sol_lines
        accounted = set(result.unimpl)
        for dep, ws in result.need_inputs.items():
            accounted |= set(ws)
        for dep, ws in result.blocked.items():
            accounted |= set(ws)
        un = missing - accounted
        if un:
            errs.append(('missing-unaccounted', f'failed return: demanded lines {sorted(un)[:5]} have no value and are not named by any diagnostic'))
    return errs, cset


# -- C06 -----------------------------------------------------------------
def c06(result, slack=1):
    """bounded work: each input asked at most once, never after a refusal;
    attempts(L) <= 1 + slack*0 + (#distinct things L had to wait for)"""
    errs = []
    if result.exc is not None and result.exc[0] in ('NonTermination', 'RecursionError'):
        errs.append(('non-termination', f'solve() does not terminate: {result.exc}'))
    asked = collections.Counter(p[0] for p in result.prompts)
    for n, c in asked.items():
        if c > 1:
            errs.append(('asked-twice', f'input {n} was asked for {c} times'))
    refused_at = None
    for k, p in enumerate(result.prompts):
        if p[2] is None:
            refused_at = k
            break
    if refused_at is not None and len(result.prompts) > refused_at + 1:
        errs.append(('asked-after-refusal', f'{len(result.prompts) - refused_at - 1} prompts after the user refused'))
    # no lost waiter: nothing may still be waiting for something that is available
    if result.exc is None:
        have = set(f'{sec}.{k}' for sec, kv in result.solution.items() for k in kv)
        for dep, ws in result.blocked_lists.items():
            if dep in have and ws:
                errs.append(('waiter-never-released', f'{sorted(ws)[:3]} still wait for {dep}, which has a value in the solution'))
        for dep, ws in result.need_inputs_lists.items():
            if dep in result.final_inputs and ws:
                errs.append(('waiter-never-released', f'{sorted(ws)[:3]} still wait for input {dep}, which was supplied'))
    if result.log is not None:
        attempts = collections.Counter()
        waits = collections.defaultdict(set)
        for a in result.log:
            attempts[a.line] += 1
            for kind, name, st, val in a.reads:
                if st != 'ok':
                    waits[a.line].add((kind, name, st))
        for line, n in attempts.items():
            bound = 1 + len(waits[line])
            if n > bound:
                errs.append(('work-bound', f'{line} evaluated {n} times; it waited for {len(waits[line])} distinct things {sorted(waits[line])[:4]} (bound {bound})'))
    return errs


# -- C13 -----------------------------------------------------------------
def c13(result, file_inputs):
    """prompting is demand-exact"""
    errs = []
    if result.log is None:
        return errs
    # replay the log and prompts in order is not possible (separate lists), so use
    # set semantics: an asked input must have been read-while-absent by every quoted line
    missing_reads = collections.defaultdict(set)
    for a in result.log:
        for kind, name, st, val in a.reads:
            if kind == 'i' and st in ('MissingInput',):
                missing_reads[name].add(a.line)
    seen = set()
    for name, needed_by, ans in result.prompts:
        if name in file_inputs:
            errs.append(('asked-supplied', f'{name} was asked for although the input file supplies it'))
        if name in seen:
            errs.append(('asked-twice', f'{name} asked twice'))
        seen.add(name)
        if not missing_reads.get(name):
            errs.append(('asked-unread', f'{name} was asked for but no evaluated line read it while absent'))
        for l in needed_by:
            if l not in missing_reads.get(name, ()):
                errs.append(('needed-by-wrong', f'{name}: quoted as needed by {l}, which never read it while absent'))
        if not needed_by:
            errs.append(('needed-by-empty', f'{name}: asked with an empty needed-by list'))
    return errs


# -- C12 (stored types, from the attempt log + solver store) ---------------
def c12_store(result):
    errs = []
    s = result.solver
    if s is None:
        return errs
    from habutax import fields as hf
    for line, val in s._v.values.items():
        fld = s._field_map[line]
        if isinstance(fld, hf.EnumField):
            ok = val is None or type(val) is fld._type
        else:
            ok = type(val) is fld._type
        if not ok:
            errs.append(('stored-type', f'{line}: stored {val!r} of type {type(val).__name__}, declared {fld._type}'))
        if isinstance(fld, hf.FloatField) and ok:
            if round(val, fld._places) != val:
                errs.append(('stored-unrounded', f'{line}: stored {val!r} is not rounded to {fld._places} places'))
    if result.log is not None:
        for a in result.log:
            for kind, name, st, val in a.reads:
                if kind == 'v' and st == 'ok' and type(val) is float and name in s._field_map:
                    fld = s._field_map[name]
                    if isinstance(fld, hf.FloatField) and round(val, fld._places) != val:
                        errs.append(('read-unrounded', f'{a.line} read {name}={val!r} before rounding'))
    return errs


# -- the store holds what was supplied (C05 file-vs-prompt, C13 write-back) --------------------------------
def stored_equals_supplied(result):
    errs = []
    for name, v in result.final_inputs.items():
        w = result.store_inputs.get(name)
        if w is None:
            if result.exc is not None:
                continue       # the run aborted (possibly while storing this very answer)
            errs.append(('supplied-value-not-stored', f'{name} was supplied as {v!r} but the store does not hold it after the run'))
        elif w != v:
            errs.append(('stored-text-differs', f'{name} was supplied as {v!r} but the store holds {w!r}'))
    for name in result.store_inputs:
        if name not in result.final_inputs:
            errs.append(('store-invented-input', f'the store holds {name} = {result.store_inputs[name]!r}, which nobody supplied'))
    return errs
