"""Minimal PDF template reader (standard library only) for the bundled IRS / NC form templates.

Reads classic xref tables, xref streams, object streams and Flate streams (with PNG predictors), the AcroForm
field tree (fully-qualified names) and, when present, the XFA `template` packet (SOM-style names such as
`topmostSubform[0].Page1[0].f1_06[0]`).  No encryption support: an encrypted file raises PDFError.

    template_fields(path) -> {name: info}   info = dict(kind, on_values, max_len, opts, excl_group, speak, source)
    python -m hv.pdfread FILE.pdf [--acro|--xfa]   dumps a template
"""
import functools, re, sys, zlib
import xml.etree.ElementTree as ET


class PDFError(Exception):
    pass


class Name(str):
    """a PDF name object (/Foo), to tell it from a string"""


class Ref(tuple):
    """indirect reference (num, gen)"""


class Stream(object):
    def __init__(self, d, raw):
        self.dict, self.raw = d, raw


WS = b' \t\r\n\x0c\x00'
DELIM = b'()<>[]{}/%'
_NUM = re.compile(rb'[+-]?(?:\d+\.?\d*|\.\d+)')
_REF = re.compile(rb'(\d+)[ \t\r\n\x0c\x00]+(\d+)[ \t\r\n\x0c\x00]+R(?![^ \t\r\n\x0c\x00()<>\[\]{}/%])')
_ESC = {ord('n'): b'\n', ord('r'): b'\r', ord('t'): b'\t', ord('b'): b'\b', ord('f'): b'\f'}


class Parser(object):
    """recursive-descent parser of PDF objects in a bytes buffer"""

    def __init__(self, data, pos=0):
        self.d, self.p = data, pos

    def skip(self):
        d, n = self.d, len(self.d)
        while self.p < n:
            c = d[self.p]
            if c in WS:
                self.p += 1
            elif c == 0x25:  # % comment
                while self.p < n and d[self.p] not in b'\r\n':
                    self.p += 1
            else:
                break

    def obj(self):
        self.skip()
        d, p = self.d, self.p
        if p >= len(d):
            raise PDFError('unexpected end of data')
        c = d[p:p + 1]
        if c == b'/':
            q = p + 1
            while q < len(d) and d[q] not in WS and d[q] not in DELIM:
                q += 1
            self.p = q
            raw = re.sub(rb'#([0-9A-Fa-f]{2})', lambda m: bytes([int(m.group(1), 16)]), d[p + 1:q])
            return Name(raw.decode('latin-1'))
        if d[p:p + 2] == b'<<':
            self.p = p + 2
            out = {}
            while True:
                self.skip()
                if self.d[self.p:self.p + 2] == b'>>':
                    self.p += 2
                    return out
                k = self.obj()
                if not isinstance(k, Name):
                    raise PDFError(f'dictionary key is not a name at {self.p}')
                out[str(k)] = self.obj()
        if c == b'<':
            q = d.index(b'>', p)
            self.p = q + 1
            h = re.sub(rb'[^0-9A-Fa-f]', b'', d[p + 1:q])
            return bytes.fromhex((h + b'0' if len(h) % 2 else h).decode())
        if c == b'(':
            return self.string()
        if c == b'[':
            self.p = p + 1
            out = []
            while True:
                self.skip()
                if self.d[self.p:self.p + 1] == b']':
                    self.p += 1
                    return out
                out.append(self.obj())
        m = _REF.match(d, p)
        if m:
            self.p = m.end()
            return Ref((int(m.group(1)), int(m.group(2))))
        m = _NUM.match(d, p)
        if m:
            self.p = m.end()
            s = m.group(0)
            return float(s) if b'.' in s else int(s)
        for kw, v in ((b'true', True), (b'false', False), (b'null', None)):
            if d.startswith(kw, p):
                self.p = p + len(kw)
                return v
        raise PDFError(f'cannot parse object at {p}: {d[p:p + 30]!r}')

    def string(self):
        d, p, depth, out = self.d, self.p + 1, 1, bytearray()
        while True:
            c = d[p]
            if c == 0x5c:  # backslash
                e = d[p + 1]
                if e in _ESC:
                    out += _ESC[e]; p += 2
                elif 0x30 <= e <= 0x37:
                    m = re.compile(rb'[0-7]{1,3}').match(d, p + 1)
                    out.append(int(m.group(0), 8) & 255); p = m.end()
                elif e in b'\r\n':
                    p += 3 if d[p + 1:p + 3] == b'\r\n' else 2
                else:
                    out.append(e); p += 2
                continue
            if c == 0x28:
                depth += 1
            elif c == 0x29:
                depth -= 1
                if depth == 0:
                    self.p = p + 1
                    return bytes(out)
            out.append(c); p += 1

    def indirect(self, resolve_len):
        """`n g obj ... endobj` at the current position -> (num, value or Stream)"""
        num, gen = self.obj(), self.obj()
        self.skip()
        if not (isinstance(num, int) and self.d.startswith(b'obj', self.p)):
            raise PDFError(f'no indirect object at {self.p}')
        self.p += 3
        val = self.obj()
        self.skip()
        if isinstance(val, dict) and self.d.startswith(b'stream', self.p):
            p = self.p + 6
            p += 2 if self.d[p:p + 2] == b'\r\n' else 1
            n = resolve_len(val.get('Length'))
            if not isinstance(n, int) or self.d[p + n:p + n + 20].lstrip(WS)[:9] != b'endstream':
                n = self.d.index(b'endstream', p) - p   # wrong /Length: fall back to the keyword
            val = Stream(val, self.d[p:p + n])
        return num, val


def text(b):
    """PDF text string -> str"""
    if isinstance(b, str):
        return b
    if b[:2] == b'\xfe\xff':
        return b[2:].decode('utf-16-be', 'replace')
    return b.decode('latin-1')


class PDF(object):
    def __init__(self, path):
        self.path = path
        with open(path, 'rb') as f:
            self.data = f.read()
        if not self.data.startswith(b'%PDF-'):
            raise PDFError(f'{path}: not a PDF')
        self.xref = {}       # num -> ('n', offset) | ('c', objstm num, index)
        self.trailer = {}
        self.cache = {}
        self.objstms = {}
        self.kinds = set()   # what was met: 'table', 'xrefstream', 'objstm'
        m = list(re.finditer(rb'startxref\s+(\d+)', self.data))
        if not m:
            raise PDFError(f'{path}: no startxref')
        pos, seen = int(m[-1].group(1)), set()
        while pos is not None and pos not in seen:
            seen.add(pos)
            pos = self._xref_section(pos)
        if 'Encrypt' in self.trailer:
            raise PDFError(f'{path}: encrypted PDF not supported')
        if 'Root' not in self.trailer:
            raise PDFError(f'{path}: no /Root in trailer')

    # -- cross references (newest section first: never overwrite) ----------
    def _xref_section(self, pos):
        ps = Parser(self.data, pos)
        ps.skip()
        if self.data.startswith(b'xref', ps.p):
            self.kinds.add('table')
            ps.p += 4
            while True:
                ps.skip()
                if self.data.startswith(b'trailer', ps.p):
                    ps.p += 7
                    break
                start, n = ps.obj(), ps.obj()
                for i in range(n):
                    off, gen = ps.obj(), ps.obj()
                    ps.skip()
                    kind = self.data[ps.p:ps.p + 1]
                    ps.p += 1
                    if kind == b'n':
                        self.xref.setdefault(start + i, ('n', off))
                    else:
                        self.xref.setdefault(start + i, ('f',))
            tr = ps.obj()
            if 'XRefStm' in tr:   # hybrid file
                self._xref_section(tr['XRefStm'])
        else:
            self.kinds.add('xrefstream')
            num, st = ps.indirect(lambda v: v)
            if not isinstance(st, Stream) or st.dict.get('Type') != 'XRef':
                raise PDFError(f'{self.path}: no xref at offset {pos}')
            tr = st.dict
            rows, w = self.decode(st), tr['W']
            index = tr.get('Index') or [0, tr['Size']]
            rl, k = sum(w), 0
            for a in range(0, len(index), 2):
                for num in range(index[a], index[a] + index[a + 1]):
                    row = rows[k * rl:(k + 1) * rl]; k += 1
                    f, q = [], 0
                    for wi in w:
                        f.append(int.from_bytes(row[q:q + wi], 'big') if wi else None); q += wi
                    t = 1 if f[0] is None else f[0]
                    ent = ('f',) if t == 0 else ('n', f[1]) if t == 1 else ('c', f[1], f[2] or 0)
                    self.xref.setdefault(num, ent)
        for k, v in tr.items():
            self.trailer.setdefault(k, v)
        return tr.get('Prev')

    # -- objects ---------------------------------------------------------------
    def decode(self, st):
        data, d = st.raw, st.dict
        filters, parms = self.res(d.get('Filter')), self.res(d.get('DecodeParms'))
        filters = [] if filters is None else filters if isinstance(filters, list) else [filters]
        parms = parms if isinstance(parms, list) else [parms] * len(filters)
        for flt, pr in zip(filters, parms):
            if flt != 'FlateDecode':
                raise PDFError(f'{self.path}: unsupported stream filter {flt}')
            data = zlib.decompressobj().decompress(data)
            pr = self.res(pr) or {}
            pred = pr.get('Predictor', 1)
            if pred >= 10:
                cols = pr.get('Columns', 1) * pr.get('Colors', 1) * pr.get('BitsPerComponent', 8) // 8
                data = _unpredict(data, cols)
            elif pred != 1:
                raise PDFError(f'{self.path}: unsupported predictor {pred}')
        return data

    def get(self, num):
        if num in self.cache:
            return self.cache[num]
        ent = self.xref.get(num, ('f',))
        if ent[0] == 'n':
            n2, val = Parser(self.data, ent[1]).indirect(self.res)
            if n2 != num:
                raise PDFError(f'{self.path}: xref points object {num} at object {n2}')
        elif ent[0] == 'c':
            self.kinds.add('objstm')
            val = self._objstm(ent[1])[ent[2]][1]
        else:
            val = None
        self.cache[num] = val
        return val

    def _objstm(self, num):
        if num not in self.objstms:
            st = self.get(num)
            body = self.decode(st)
            n, first = st.dict['N'], st.dict['First']
            head = Parser(body[:first])
            pairs = [(head.obj(), head.obj()) for _ in range(n)]
            self.objstms[num] = [(on, Parser(body, first + off).obj()) for on, off in pairs]
        return self.objstms[num]

    def res(self, v):
        """resolve an indirect reference (repeatedly)"""
        for _ in range(50):
            if not isinstance(v, Ref):
                return v
            v = self.get(v[0])
        raise PDFError('reference loop')

    # -- AcroForm --------------------------------------------------------------
    def acroform(self):
        return self.res(self.res(self.trailer['Root']).get('AcroForm')) or {}

    def acro_fields(self):
        """fully-qualified name -> info for every terminal field of the AcroForm tree"""
        out, dups = {}, []

        def inh(chain, key):
            for d in reversed(chain):
                if key in d:
                    return self.res(d[key])
            return None

        def states(d):
            ap = self.res(d.get('AP')) or {}
            n = self.res(ap.get('N'))
            return [k for k in n if k != 'Off'] if isinstance(n, dict) else []

        def walk(ref, chain, prefix, seen):
            d = self.res(ref)
            if not isinstance(d, dict) or (isinstance(ref, Ref) and ref in seen):
                return
            seen = seen | {ref} if isinstance(ref, Ref) else seen
            name = prefix
            if 'T' in d:
                t = text(self.res(d['T']))
                name = f'{prefix}.{t}' if prefix else t
            chain = chain + [d]
            kids = [self.res(k) for k in self.res(d.get('Kids')) or []]
            if any(isinstance(k, dict) and 'T' in k for k in kids):
                for k in self.res(d['Kids']):
                    walk(k, chain, name, seen)
                return
            ft, ff = inh(chain, 'FT'), inh(chain, 'Ff') or 0
            on = []
            for w in (kids or [d]):      # nameless kids are the widgets of this field
                on += [s for s in states(w) if s not in on]
            opts = []
            for o in inh(chain, 'Opt') or []:
                o = self.res(o)
                opts.append(text(self.res(o[0])) if isinstance(o, list) else text(o))
            kind = {'Tx': 'text', 'Ch': 'choice', 'Sig': 'signature'}.get(ft, 'unknown')
            if ft == 'Btn':
                kind = 'pushButton' if ff & 0x10000 else 'radio' if ff & 0x8000 else 'checkButton'
            info = dict(kind=kind, on_values=on, max_len=inh(chain, 'MaxLen'), opts=opts,
                        excl_group=name if kind == 'radio' else None,
                        speak=text(inh(chain, 'TU') or b''), source='acro', comb=bool(ff & 0x1000000) and ft == 'Tx')
            if name in out:
                dups.append(name)
            out[name] = info

        for r in self.res(self.acroform().get('Fields')) or []:
            walk(r, [], '', frozenset())
        self.acro_duplicates = dups
        return out

    # -- XFA ---------------------------------------------------------------------
    def xfa_packets(self):
        x = self.res(self.acroform().get('XFA'))
        if x is None:
            return None
        if isinstance(x, Stream):
            return {'xdp': self.decode(x)}
        return {text(self.res(x[i])): self.decode(self.res(x[i + 1])) for i in range(0, len(x) - 1, 2)}

    def xfa_fields(self):
        pk = self.xfa_packets()
        if pk is None:
            return None
        if 'template' in pk:
            root = ET.fromstring(pk['template'])
        else:
            root = ET.fromstring(b''.join(pk.values()))
            root = next((e for e in root.iter() if _tag(e) == 'template'), root)
        out = {}
        _xfa_walk(root, '', None, out)
        return out


def _unpredict(data, cols):
    """undo PNG row filters (predictor >= 10), one byte per sample"""
    out, prev = bytearray(), bytearray(cols)
    for r in range(0, len(data), cols + 1):
        ft, row = data[r], bytearray(data[r + 1:r + cols + 1])
        for i in range(len(row)):
            a, b, c = (row[i - 1] if i else 0), prev[i], (prev[i - 1] if i else 0)
            pa, pb, pc = abs(b - c), abs(a - c), abs(a + b - 2 * c)
            paeth = a if pa <= pb and pa <= pc else b if pb <= pc else c
            row[i] = (row[i] + (0, a, b, (a + b) // 2, paeth)[ft]) & 255
        out += row
        prev = row
    return bytes(out)


def _tag(e):
    return e.tag.rsplit('}', 1)[-1]


def _child(e, *path):
    for t in path:
        e = next((c for c in e if _tag(c) == t), None) if e is not None else None
    return e


def _alltext(e):
    return re.sub(r'\s+', ' ', ''.join(e.itertext())).strip() if e is not None else ''


CONTAINERS = ('subform', 'subformSet', 'area', 'exclGroup')


def _xfa_walk(node, prefix, excl, out):
    """XFA template containers/fields -> SOM names; index = position among same-named siblings.
    Nameless subforms, areas and subformSets are transparent to naming (XFA SOM scoping rule)."""
    counts = {}

    def scoped(n):
        for c in n:
            t = _tag(c)
            if t in CONTAINERS and (t in ('area', 'subformSet') or not c.get('name')) and t != 'exclGroup':
                yield from scoped(c)
            elif t in CONTAINERS or t == 'field':
                yield c

    for c in scoped(node):
        t, nm = _tag(c), c.get('name') or ''
        k = counts.get(nm, 0)
        counts[nm] = k + 1
        full = f'{prefix}.{nm}[{k}]' if prefix else f'{nm}[{k}]'
        if t == 'field':
            ui = _child(c, 'ui')
            widget = next((_tag(w) for w in (ui if ui is not None else []) if _tag(w) not in ('extras', 'picture')), 'text')
            kind = {'textEdit': 'text', 'numericEdit': 'text', 'dateTimeEdit': 'text', 'choiceList': 'choice',
                    'button': 'pushButton'}.get(widget, widget)
            items = [x for x in c if _tag(x) == 'items']
            vals = [[(v.text or '') for v in it] for it in items]
            on, opts = [], []
            if kind == 'checkButton':
                on = [v[0] for v in vals[:1] if v]         # first item = on value, 2nd = off, 3rd = neutral
            elif kind == 'choice':
                opts = vals[-1] if vals else []             # bound (save) values come last
            limit = None
            te = _child(ui, 'textEdit') if ui is not None else None
            comb = _child(te, 'comb')
            mc = _child(c, 'value', 'text')
            if mc is not None and mc.get('maxChars'):
                limit = int(mc.get('maxChars'))
            cells = int(comb.get('numberOfCells')) if comb is not None and comb.get('numberOfCells') else None
            out[full] = dict(kind=kind, on_values=on, max_len=limit if limit is not None else cells, opts=opts,
                             excl_group=excl, speak=_alltext(_child(c, 'assist', 'speak')),
                             tooltip=_alltext(_child(c, 'assist', 'toolTip')), source='xfa',
                             comb=cells is not None, comb_cells=cells)
        else:
            _xfa_walk(c, full, full if t == 'exclGroup' else excl, out)


@functools.lru_cache(maxsize=None)
def template_fields(path):
    """name -> info.  XFA names when the template carries an XFA packet (IRS), else AcroForm names (NC).
    Every info also carries 'acro' (the AcroForm twin's info, or None) for XFA-sourced fields."""
    pdf = PDF(path)
    acro = pdf.acro_fields()
    xfa = pdf.xfa_fields()
    if xfa is None:
        return acro
    out = {}
    for name, info in xfa.items():
        info = dict(info, acro=acro.get(name))
        if not info['speak']:
            info['speak'] = info.get('tooltip') or (info['acro'] or {}).get('speak', '')
        out[name] = info
    return out


@functools.lru_cache(maxsize=None)
def self_check(path):
    """differences between the XFA and the AcroForm views of one template (both empty = they coincide)"""
    pdf = PDF(path)
    acro, xfa = pdf.acro_fields(), pdf.xfa_fields()
    res = dict(kinds=sorted(pdf.kinds), acro=len(acro), xfa=None if xfa is None else len(xfa),
               only_xfa=[], only_acro=[], mismatch=[], acro_duplicates=pdf.acro_duplicates)
    if xfa is not None:
        fill = {n for n, i in xfa.items() if i['kind'] != 'pushButton'}
        afill = {n for n, i in acro.items() if i['kind'] != 'pushButton'}
        res['only_xfa'], res['only_acro'] = sorted(fill - afill), sorted(afill - fill)
        for n in sorted(fill & afill):
            x, a = xfa[n], acro[n]
            if x['kind'] == 'checkButton' and not set(x['on_values']) <= set(a['on_values']):
                res['mismatch'].append((n, 'on', x['on_values'], a['on_values']))
            if x['kind'] == 'text' and (x['max_len'] or None) != (a['max_len'] or None):
                res['mismatch'].append((n, 'max_len', x['max_len'], a['max_len']))
    return res


if __name__ == '__main__':
    args = [a for a in sys.argv[1:] if not a.startswith('--')]
    for path in args:
        pdf = PDF(path)
        if '--acro' in sys.argv:
            fields = pdf.acro_fields()
        elif '--xfa' in sys.argv:
            fields = pdf.xfa_fields() or {}
        else:
            fields = template_fields(path)
        for name, i in fields.items():
            print(f"{name}\t{i['kind']}\ton={i['on_values']}\tmax={i['max_len']}\tcomb={i.get('comb')}\t"
                  f"opts={len(i['opts'])}\texcl={i['excl_group']}\t{i['speak'][:110]!r}")
        sc = self_check(path)
        print(f"# {path}: {sc['kinds']} acro={sc['acro']} xfa={sc['xfa']} only_xfa={sc['only_xfa']} "
              f"only_acro={sc['only_acro']} mismatch={sc['mismatch']} acro_duplicates={sc['acro_duplicates']}")
