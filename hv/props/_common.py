import hv
from hv import runner, gen


def gen_replay(pid):
    def replay(case):
        if case.get('engine') == 'e2a':
            v = gen.replay_case(case, pid)
            if v:
                return False, f'{v[0][0]}: {v[0][1]}'
            return True, 'generated program case passes'
        return None
    return replay
