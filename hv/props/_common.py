import hv
from hv import runner, gen


def gen_replay(pid):
    def replay(case):
        if case.get('engine') == 'e2a':
            v = gen.replay_case(case, pid)
            if v:
                return False, f'{v[0][0]}: {v[0][1]}'
            return True, 'generated program case passes'
        return None
    return replay


def e3_replay(pid, case):
    from hv import e3, e3mon
    base = e3.base_by_name(case['base'], case['year'])
    r, asked = e3.run_return(case['year'], base, case['assign'], keep_solver=True)
    viols, cnt = e3mon.monitor(pid, case['year'], base, case['assign'], r, asked)
    if viols:
        return False, f'{viols[0][0]}: {viols[0][1]}'
    return True, f'return {case["base"]}/{case["year"]} + {case["assign"]} passes ({r.outcome_class()})'
