import hv
from hv import runner, gen, e3, e3mon, e2b
from hv.props import _common

PID = 'C01'


def run(tier):
    run = runner.Run(PID, tier, 'model_checking',
                     'every generated form program of the tier bound x every input environment x every relevant rank '
                     'permutation, executed on the real Solver (E2a); plus every return within d deviations of the base '
                     'returns of 2021-2023 (E3 prompt tree; quick d<=1 on 5 bases/year, thorough d<=2 on all); '
                     'distinct = outcome classes observed per engine/base')
    e2b.explore_into(run, tier, ('verdict', 'valueless-unnamed', 'undemanded-value'), PID)
    gen.explore(run, PID, tier)
    e3.explore_all(run, PID, tier)
    return run.finish()


def replay(case):
    if case.get('engine') == 'e2b':
        out, errs = e2b.replay(e2b.UNIVERSES[case['universe']], case['script'], case['order'])
        return (not errs), (str(errs[:1]) if errs else f'passes ({out})')
    if case.get('engine') == 'e3':
        return _common.e3_replay(PID, case)
    return _common.gen_replay(PID)(case)
