"""C02: every computed line equals what the official form instructs for it."""
import copy

import hv
from hv import runner, e3, c02oracle
from hv.props import _common

PID = 'C02'


def key(kind, msg, case):
    return f'C02|{case["year"]}|{kind}'


SELFTEST_BASES = ('B1-mfj-kids-itemize', 'B2-investor', 'B3-retiree', 'B4-schedule1', 'B5-high-mfj', 'B6-nc', 'B7-dense')


def _bump(v, places):
    x = float(v or 0) + 7.0
    return f'{x:.{places}f}'


def carry_selftest(run):
    """the oracle must notice a line that is off: on solved base returns every line the oracle checked is, in a copy of the
    solution, raised by 7 (so that both ends of a carry differ, a sum no longer adds up ...) and the oracle must answer with an
    error naming exactly that line; the untouched solution of a line that raised no alarm must stay silent.
    CARRY rules are counted apart (destination end and source end are both perturbed)."""
    n = dict(lines=0, detected=0, carries=0, carries_detected_dest=0, carries_source_perturbed=0, carries_detected_source=0)
    missed = []
    for year in c02oracle.YEARS:
        tb = c02oracle.table(year)
        for bname in SELFTEST_BASES:
            try:
                base = e3.base_by_name(bname, year)
            except KeyError:
                continue
            r, asked = e3.run_return(year, base, {}, instrument=False)
            run.evaluations += 1
            if r.exc is not None or not r.verdict:
                continue
            errs0, st0 = c02oracle.check_solution(year, r.solution, inputs=r.final_inputs, partial=False)
            alarmed0 = set(k.split('|')[0] for k, _ in errs0)
            for sec, kv in r.solution.items():
                form = sec.split(':')[0]
                rules = tb.by_form.get(form, {})
                for line, val in kv.items():
                    rs = [x for x in rules.get(line, ()) if not x.crosscheck and x.cmp == 'eq']
                    if not rs or f'{form}.{line}' in alarmed0 or f'chk|{form}.{line}' not in st0:
                        continue
                    places = tb.numeric.get(form, {}).get(line, 2)
                    sol = copy.deepcopy(r.solution)
                    sol[sec][line] = _bump(val, places)
                    errs, _ = c02oracle.check_solution(year, sol, inputs=r.final_inputs, partial=False)
                    hit = any(k.startswith(f'{form}.{line}|') for k, _ in errs)
                    n['lines'] += 1
                    n['detected'] += hit
                    is_carry = any(x.kind == 'carry' for x in rs)
                    if is_carry:
                        n['carries'] += 1
                        n['carries_detected_dest'] += hit
                    if not hit:
                        # a rule may be not applicable on this return (e.g. line 12 when not itemizing): only rules that
                        # produced an expectation count
                        c = c02oracle.Ctx(year, r.solution, sec, False, r.final_inputs)
                        if any(c02oracle._evaluate(x, c)[0] == 'ok' for x in rs):
                            missed.append(f'{year} {bname} {sec}.{line}')
                        else:
                            n['lines'] -= 1
                            n['carries'] -= is_carry
            # source end of carries: perturb each line the carry reads, the destination must be flagged
            for sec, kv in r.solution.items():
                form = sec.split(':')[0]
                for line in kv:
                    for x in tb.by_form.get(form, {}).get(line, ()):
                        if x.kind != 'carry' or x.crosscheck or x.cmp != 'eq' or f'{form}.{line}' in alarmed0:
                            continue
                        c = c02oracle.Ctx(year, r.solution, sec, False, r.final_inputs)
                        what, exp = c02oracle._evaluate(x, c)
                        if what != 'ok':
                            continue
                        for osec, oline in sorted(set(c.refs)):
                            oval = r.solution.get(osec, {}).get(oline)
                            try:
                                if oval is None or float(oval or 0) == 0:
                                    continue
                            except ValueError:
                                continue
                            sol = copy.deepcopy(r.solution)
                            sol[osec][oline] = _bump(oval, 2)
                            w2, e2 = c02oracle._evaluate(x, c02oracle.Ctx(year, sol, sec, False, r.final_inputs))
                            if w2 != 'ok' or not isinstance(e2, float) or abs(e2 - exp) < 1:
                                continue        # an operand of a condition, not a source of the amount
                            errs, _ = c02oracle.check_solution(year, sol, inputs=r.final_inputs, partial=False)
                            n['carries_source_perturbed'] += 1
                            if any(k.startswith(f'{form}.{line}|') for k, _ in errs):
                                n['carries_detected_source'] += 1
                            else:
                                missed.append(f'{year} {bname} source {osec}.{oline} of {sec}.{line}')
    if missed:
        run.harness_error(f'C02 self-test: the oracle did not notice a perturbed line: {missed[:8]} ({len(missed)} in all)')
    run.extra['carry_selftest'] = n
    run.count('selftest.perturbed_lines', n['lines'])
    run.count('selftest.detected', n['detected'])
    return n


# ------------------------------------------------------------------------------------------------------------------
# second engine: every line definition alone, under an open environment (the E4 environment of hv.e4): the values the
# definition reads for other lines / inputs are chosen by the explorer, the oracle recomputes the line from exactly those
# values.  Reaches the lines no base return produces (Form 8959 Part II, 2021 Schedule 8812 Part III ...) and gives
# operands that are non-zero and pairwise distinct.
SCRIPT_LEN = 96


def _render_input(v):
    if isinstance(v, bool):
        return 'yes' if v else 'no'
    if v is None:
        return ''
    return getattr(v, 'name', None) or str(v)


_DENV = None


def _distinct_env():
    """E4 environment whose money answers are non-zero and pairwise distinct (script[0] < 0 selects it:
    -1 ascending amounts, -2 descending amounts, -3 ascending small amounts)"""
    global _DENV
    if _DENV is None:
        from hv import e4
        from habutax import fields as hf, inputs as hi

        class DistinctEnv(e4.Env):
            def read(self, kind, full, frame):
                key = (kind, full)
                if key in self.memo:
                    return self.memo[key]
                obj = self.solver.lookup(kind, full)
                if isinstance(obj, (hf.FloatField, hi.FloatInput)):
                    n = len(self.trace) + 1
                    mode = self.script[0]
                    x = {-1: 1000.0 + 1733.37 * n, -2: 250000.0 - 1733.37 * n, -3: 3.17 * n}[mode]
                    places = getattr(obj, '_places', 2)
                    val = round(x, places)
                    self.pos += 1
                    self.trace.append((full, 1))
                    self.memo[key] = val
                    return val
                return super().read(kind, full, frame)
        _DENV = DistinctEnv
    return _DENV


def isolated_eval(year, ctx, script):
    """one execution of one line definition -> (outcome, pseudo solution, inputs, section, line)"""
    from hv import e4
    from habutax import fields as hf
    solver, form, fld, extra = ctx
    if script and script[0] < 0:
        env = _distinct_env()(solver, [script[0]] + [0] * SCRIPT_LEN, extra, None)
    else:
        env = e4.Env(solver, script, extra, None)
    sec, line = form.name(), fld.base_name().lower()
    try:
        val = fld.value(e4.Acc(env, 'i', form), e4.Acc(env, 'v', form))
    except hf.FieldNotImplemented:
        return 'not-implemented', None, None, sec, line, len(env.trace), env.trace
    except (e4.AbsentReached, e4.Unresolved):
        return 'unresolved', None, None, sec, line, len(env.trace), env.trace
    except RecursionError:
        return 'raised', None, None, sec, line, len(env.trace), env.trace
    except Exception:
        return 'raised', None, None, sec, line, len(env.trace), env.trace
    sol, inputs = {}, {}
    for (kind, full), v in env.memo.items():
        osec, oline = full.split('.', 1)
        if kind == 'v':
            obj = solver.lookup('v', full)
            sol.setdefault(osec, {})[oline.lower()] = obj.to_string(v)
        else:
            inputs[full] = _render_input(v)
            if full == '1040.filing_status':
                sol.setdefault('1040', {}).setdefault('filing_status', _render_input(v))
    sol.setdefault(sec, {})[line] = fld.to_string(val)
    return 'value', sol, inputs, sec, line, len(env.trace), env.trace


def _isolated_item(arg):
    from hv import e4
    from habutax.forms import available_forms
    year, ci, inst, li, cap = arg
    C = available_forms[year][ci]
    ctx = e4.make_ctx(year, C, inst, li, rich=True)
    out = dict(evals=0, values=0, checked=0, nontrivial=0, discriminating=0, skipped=0, viols=[], outcomes={})
    scripts = [[(i + r) % 6 for i in range(SCRIPT_LEN)] for r in range(6)] + [[-1], [-2], [-3]]
    seen = set()
    k = 0
    while k < len(scripts) and out['evals'] < cap:
        script = scripts[k]
        k += 1
        t = tuple(script)
        if t in seen:
            continue
        seen.add(t)
        what, sol, inputs, sec, line, nreads, trace = isolated_eval(year, ctx, script)
        out['evals'] += 1
        out['outcomes'][what] = out['outcomes'].get(what, 0) + 1
        if k == 1 and script[0] >= 0:
            # single deviations from the first baseline
            for pos in range(min(nreads, SCRIPT_LEN)):
                for alt in range(trace[pos][1]):
                    if alt != script[pos] % max(1, trace[pos][1]):
                        s2 = list(script)
                        s2[pos] = alt
                        scripts.append(s2)
        if what != 'value':
            continue
        out['values'] += 1
        errs, st = c02oracle.check_solution(year, sol, inputs=inputs, partial=True, only=(sec, line))
        out['checked'] += st['lines_checked']
        out['nontrivial'] += st['lines_nontrivial']
        out['discriminating'] += st['lines_discriminating']
        out['skipped'] += st['lines_skipped_missing_operand']
        for kind, msg in errs:
            if len(out['viols']) < 3:
                out['viols'].append((kind, msg, dict(engine='e4line', year=year, form_index=ci, form=C.form_name, inst=inst,
                                                     line_index=li, line=line, script=(script[:max(1, nreads)] if script[0] >= 0 else script[:1]), kind=kind)))
    out['line'] = f'{C.form_name}.{ctx[2].base_name().lower()}'
    return out


def isolated_lines(run, tier):
    from hv import e4
    from habutax.forms import available_forms
    from habutax.form import InputForm
    cap = 120 if tier == 'quick' else 1200
    items = []
    for year in c02oracle.YEARS:
        tb = c02oracle.table(year)
        withrule = set(tb.lines_with_oracle)
        for ci, C in enumerate(available_forms[year]):
            if issubclass(C, InputForm):
                continue
            for inst in e4.instances(C):
                f = C(instance=inst)
                for li, fl in enumerate(f.fields()):
                    if (C.form_name, fl.base_name().lower()) in withrule:
                        items.append((year, ci, inst, li, cap))
                if inst is not None:
                    break       # one instance is enough: the instances share their definitions
    res = runner.pmap(_isolated_item, items)
    tot = dict(lines=0, evaluations=0, values=0, checked=0, nontrivial=0, discriminating=0, skipped_missing_operand=0,
               lines_checked=0, lines_nontrivial=0)
    never = []
    for (year, ci, inst, li, _), o in zip(items, res):
        tot['lines'] += 1
        tot['evaluations'] += o['evals']
        tot['values'] += o['values']
        tot['checked'] += o['checked']
        tot['nontrivial'] += o['nontrivial']
        tot['discriminating'] += o['discriminating']
        tot['skipped_missing_operand'] += o['skipped']
        tot['lines_checked'] += 1 if o['checked'] else 0
        tot['lines_nontrivial'] += 1 if o['nontrivial'] else 0
        if not o['nontrivial']:
            never.append(f'{year} {o["line"]}')
        run.extra.setdefault('isolated_nontrivial_lines', set()).add(f'{year} {o["line"]}') if o['nontrivial'] else None
        for kind, msg, case in o['viols']:
            run.violation(key(kind, msg, case), case, msg + ' [isolated line definition, open environment]')
    run.evaluations += tot['evaluations']
    run.states += tot['values']
    run.extra['isolated_lines'] = tot
    run.extra['isolated_lines_never_nontrivial'] = never
    for k, v in tot.items():
        run.count('e4line.' + k, v)
    return tot


def summarize(run):
    """move the per-line counters out of run.counters into a summary"""
    per = {}
    for k in list(run.counters):
        for tag in ('chk', 'nt', 'ds', 'conflict'):
            p = f'e3.{tag}|'
            if k.startswith(p):
                per.setdefault(k[len(p):], {})[tag] = run.counters.pop(k)
    by_year = {}
    for y in c02oracle.YEARS:
        s = c02oracle.table(y).summary()
        by_year[str(y)] = {k: v for k, v in s.items() if k != 'lines_without_oracle'}
        by_year[str(y)]['lines_without_oracle_n'] = len(s['lines_without_oracle'])
        by_year[str(y)]['template_report'] = {k: v for k, v in c02oracle.table(y).template_report.items() if k in ('derived', 'by_form')}
    run.extra['oracle_by_year'] = by_year
    run.extra['lines_without_oracle'] = {str(y): c02oracle.table(y).summary()['lines_without_oracle'] for y in c02oracle.YEARS}
    return per


def run(tier):
    run = runner.Run(PID, tier, 'model_checking',
                     'every return (solved, failed or aborted: partial solutions count) within d deviations (quick 1 on 5 bases/year, '
                     'thorough 2 on all) of the base returns of 2021-2023; each produced line that has an oracle instruction (TEMPLATE: '
                     'grammar over the official template text; TRANSCRIPTION: cited hand-written table) is recomputed from the other '
                     'lines of the same solution; carries compared on both ends; distinct = outcome classes per base')
    # per-year line counters: the e3 counters are keyed by line only, so explore year by year
    per_year = {}
    for year in c02oracle.YEARS:
        before = {k: v for k, v in run.counters.items()}
        e3.explore_all(run, PID, tier, years=(year,), finding_key=key)
        for k, v in list(run.counters.items()):
            for tag in ('chk', 'nt', 'ds', 'conflict'):
                p = f'e3.{tag}|'
                if k.startswith(p):
                    per_year.setdefault(year, {}).setdefault(k[len(p):], {})[tag] = v - before.get(k, 0)
                    del run.counters[k]
    summarize(run)
    never_nt, never_ds, never_seen, nt_lines, chk_lines = [], [], [], 0, 0
    for year in c02oracle.YEARS:
        tb = c02oracle.table(year)
        seen = per_year.get(year, {})
        for f, l in tb.lines_with_oracle:
            d = seen.get(f'{f}.{l}', {})
            if not d.get('chk'):
                never_seen.append(f'{year} {f}.{l}')
                continue
            chk_lines += 1
            if d.get('nt'):
                nt_lines += 1
            else:
                never_nt.append(f'{year} {f}.{l}')
            if not d.get('ds'):
                never_ds.append(f'{year} {f}.{l}')
        for k, d in seen.items():
            if d.get('conflict'):
                run.harness_error(f'C02 oracle: template rule and transcription disagree on {year} {k} ({d["conflict"]} solutions)')
    run.extra['lines_with_oracle_checked_in_some_solution'] = chk_lines
    run.extra['lines_checked_nontrivially_in_some_solution'] = nt_lines
    run.extra['lines_never_nontrivial'] = never_nt
    run.extra['lines_never_discriminating'] = never_ds
    run.extra['lines_with_oracle_never_produced'] = never_seen
    run.extra['per_line'] = {str(y): {k: [d.get('chk', 0), d.get('nt', 0), d.get('ds', 0)] for k, d in sorted(v.items())}
                             for y, v in per_year.items()}
    carry_selftest(run)
    isolated_lines(run, tier)
    iso = run.extra.pop('isolated_nontrivial_lines', set())
    run.extra['lines_never_nontrivial_in_either_engine'] = [x for x in never_nt + never_seen if x not in iso]
    for y in c02oracle.YEARS:
        for f, l in c02oracle.table(y).lines_with_oracle:
            run.outcome(('line', y, f, l))
    run.assumptions = ['transcribed instructions of hv/c02oracle.py (cited per entry); instruction grammar of hv/c02_template_rules.py over the '
                       'bundled templates; tax-table lines use hv/statutory.py; whole-dollar NC lines are compared after Python round()',
                       'a line without an oracle narrows the claim (extra.lines_without_oracle), it is never an alarm']
    return run.finish()


def replay(case):
    """re-run the return of the case; the violation of the case's own line decides (a return may show other known lines too)"""
    if case.get('engine') == 'e4line':
        from hv import e4
        from habutax.forms import available_forms
        C = available_forms[case['year']][case['form_index']]
        ctx = e4.make_ctx(case['year'], C, case['inst'], case['line_index'], rich=True)
        script = list(case['script']) + ([0] * SCRIPT_LEN if case['script'][0] >= 0 else [])
        what, sol, inputs, sec, line, _, _ = isolated_eval(case['year'], ctx, script)
        if what != 'value':
            return True, f'line definition {sec}.{line} gives no value under this environment ({what})'
        errs, _ = c02oracle.check_solution(case['year'], sol, inputs=inputs, partial=True, only=(sec, line))
        if errs:
            return False, f'{errs[0][0]}: {errs[0][1]} [environment {sol} {inputs}]'
        return True, f'line definition {sec}.{line} agrees with its instruction under this environment'
    base = e3.base_by_name(case['base'], case['year'])
    r, asked = e3.run_return(case['year'], base, case['assign'], keep_solver=True)
    errs, _ = c02oracle.check_solution(case['year'], r.solution, inputs=r.final_inputs, partial=(r.exc is not None or not r.verdict))
    kind = case.get('kind')
    mine = [(k, m) for k, m in errs if kind is None or k == kind]
    if mine:
        return False, f'{mine[0][0]}: {mine[0][1]}'
    return True, (f'return {case["base"]}/{case["year"]} + {case["assign"]}: line {kind or "(any)"} agrees with its instruction '
                  f'({r.outcome_class()}; {len(errs)} other disagreeing lines)')
