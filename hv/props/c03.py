import hv
from hv import runner, gen, e3, e3mon
from hv.props import _common

PID = 'C03'


def run(tier):
    run = runner.Run(PID, tier, 'model_checking',
                     'every generated form program of the tier bound x every input environment x every relevant rank '
                     'permutation, executed on the real Solver (E2a); plus every return within d deviations of the base '
                     'returns of 2021-2023 (E3 prompt tree; quick d<=1 on 3 bases/year, d=0 on the others, thorough d<=2 on all); '
                     'distinct = outcome classes observed per engine/base')
    gen.explore(run, PID, tier)
    e3.explore_all(run, PID, tier, quick_bases=('B0-single-wage', 'B2-investor', 'B6-nc'))
    return run.finish()


def replay(case):
    if case.get('engine') == 'e3':
        return _common.e3_replay(PID, case)
    return _common.gen_replay(PID)(case)
