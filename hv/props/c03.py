import hv
from hv import runner, gen, e3, e3mon
from hv.props import _common

PID = 'C03'


def run(tier):
    run = runner.Run(PID, tier, 'model_checking',
                     'every generated form program of the tier bound x every input environment x every relevant rank '
                     'permutation, executed on the real Solver (E2a); plus every return within d deviations of the base '
                     'returns of 2021-2023 (E3 prompt tree; quick d<=1 on 3 bases/year, d=0 on the others, thorough d<=2 on all); '
                     'distinct = outcome classes observed per engine/base')
    gen.explore(run, PID, tier)
    e3.explore_all(run, PID, tier, quick_bases=('B0-single-wage', 'B2-investor', 'B6-nc'),
                   deep_thorough=((2023, 'B0-single-wage'),))     # every node costs 3-4 further solves here: two deviations on one tree only
    # one-line priority deviations of the attempt order (file-driven), in parallel over (base, line, first/last)
    names = ('B0-single-wage', 'B2-investor', 'B7-dense', 'B11-parent-foreign-dividends') if tier == 'quick' else [b.name for b in e3.BASES]
    items = [it for year in (2021, 2022, 2023) for b in e3.bases_for(year) if b.name in names for it in e3mon.boost_items(year, b)]
    n = 0
    for it, errs in zip(items, runner.pmap(e3mon.boost_work, items)):
        n += 1
        for kind, msg in errs:
            if kind in ('not-a-fixed-point', 'stale-read', 'unreadable'):
                run.violation(f'{PID}|e3-boost|{it[0]}|{kind}|{msg[:70]}', dict(engine='boost', item=list(it)), msg)
    run.count('e3.boost_schedules', n)
    run.evaluations += n
    run.transitions += n
    run.traces += n
    return run.finish()


def replay(case):
    if case.get('engine') == 'boost':
        errs = e3mon.boost_work(tuple(case['item']))
        return (not errs), (str(errs[:1]) if errs else 'passes')
    if case.get('engine') == 'e3':
        return _common.e3_replay(PID, case)
    return _common.gen_replay(PID)(case)
