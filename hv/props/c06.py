import json
import hv
from hv import runner, gen, e1, e3, e2b
from hv.props import _common

PID = 'C06'


def run(tier):
    run = runner.Run(PID, tier, 'model_checking',
                     'E1: BFS over all register/meet/drain histories of the real DependencyTracker up to the depth bound '
                     '(states = distinct tracker+generator states x bookkeeping); E2b: state graph of Solver.solve() under an adversarial '
                     'nondeterministic line and prompt (all rank permutations); E2a: generated programs x environments '
                     'x rank permutations on the real Solver with work counters; distinct = outcome classes / tracker states')
    depth = 7 if tier == 'quick' else 10
    r = e1.explore(depth, pmap=lambda f, xs: runner.pmap(f, xs))
    run.states += r['states']
    run.transitions += r['transitions']
    run.traces += r['executions']
    run.evaluations += r['executions']
    run.count('e1.depth_completed', r['maxdepth'])
    run.count('e1.states', r['states'])
    run.count('e1.transitions', r['transitions'])
    run.count('e1.distinct_impl_states', r['impl_states'])
    run.extra['e1_bound'] = dict(depth=depth, max_registrations=4, max_meets=3, dependencies=2, waiters=3,
                                 open_frontier_at_depth=r['open_frontier'])
    for h in r['samples'][-2:]:
        run.sample(dict(engine='e1', history=[list(o) for o in h]))
    for k in range(r['impl_states']):
        if k < 50:
            run.outcome(('e1', k))
    for hist, err in r['violations']:
        run.violation(f'C06|e1|{err[:60]}', dict(engine='e1', history=[list(o) for o in hist]), err)
    e2b.explore_into(run, tier, None, PID)
    gen.explore(run, PID, tier)
    e3.explore_all(run, PID, tier)
    return run.finish()


def replay(case):
    if case.get('engine') == 'e1':
        impl, model, err = e1.build([tuple(o) for o in case['history']])
        return (err is None), (err or 'history passes')
    if case.get('engine') == 'e2b':
        out, errs = e2b.replay(e2b.UNIVERSES[case['universe']], case['script'], case['order'])
        return (not errs), (str(errs[:1]) if errs else f'passes ({out})')
    if case.get('engine') == 'e3':
        return _common.e3_replay(PID, case)
    return _common.gen_replay(PID)(case)
