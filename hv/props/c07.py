"""C07: income tax on a taxable amount follows the year's statutory rate schedule.

Engine E5 (alphabet enumerator): figure_tax(x, status) of every year is enumerated over
  * every whole dollar 0..99999 for all five filing statuses (exhaustive, both tiers),
  * e-0.5, e-0.01, e+0.01, e+0.5 around Tax Table row edges e,
  * every statutory bracket boundary b of the year (any status), b-0.01, b+0.01,
    100000 exactly and +-0.01,
  * a fixed geometric grid of 2000 whole-dollar amounts 1e5 .. 1e12 (the supported maximum),
and compared with hv.statutory.expected_tax (independent bracket table, midpoint rule).
Derived consequences are checked over the same enumeration: defined, non-decreasing,
bounded increment, surviving spouse == joint.
"""
import importlib, time
import hv
from hv import runner, statutory as S

PID = 'C07'
YEARS = (2021, 2022, 2023)
CHUNK = 2000                   # whole dollars per work item
MAXIMUM = 10 ** 12             # supported maximum (upper bound of the last worksheet row)
NGRID = 2000
KINDS = ('undefined', 'mismatch', 'decreasing', 'increment', 'qss_ne_mfj')
TOL = 0.005
SAMPLE_AT = {(2021, 'Single', 0), (2021, 'MarriedFilingJointly', 46000), (2021, 'QualifyingWidowWidower', 66000),
             (2022, 'HeadOfHousehold', 98000), (2022, 'MarriedFilingSeparately', 100000),
             (2023, 'QualifyingSurvivingSpouse', 88000), (2023, 'Single', 100000), (2023, 'HeadOfHousehold', 14000)}

_EXPECT = {}                   # (year, base status) -> {row_lo: tax}
_MOD = {}


# ---------------------------------------------------------------------------
# implementation access
def module(year):
    if year not in _MOD:
        _MOD[year] = importlib.import_module(f'habutax.forms.ty{year}.f1040_figure_tax')
    return _MOD[year]


def status_enum(year):
    import habutax.enum as E
    # ty2021 imports filing_status_2021, ty2022 imports filing_status, ty2023 imports nothing
    # and is handed members of habutax.enum.filing_status by ty2023/f1040.py
    return E.filing_status_2021 if year == 2021 else E.filing_status


def statuses(year):
    return list(status_enum(year))


def joint_and_survivor(year):
    names = [s.name for s in statuses(year)]
    surv = [n for n in names if n.startswith('Qualifying')]
    return 'MarriedFilingJointly', (surv[0] if surv else None)


def call(year, status, amount):
    """-> (value or None, error text or None)"""
    try:
        v = module(year).figure_tax(amount, status)
    except Exception as e:                      # AssertionError from a missing row, etc.
        return None, f'{type(e).__name__}: {e}'.rstrip(': ')
    if isinstance(v, bool) or not isinstance(v, (int, float)) or v != v or v in (float('inf'), float('-inf')):
        return None, f'returned {v!r}'
    if type(v) is not float:
        # Form 1040 line 16 is a money line: anything but a float is rejected by the solver (TypeError), i.e. the tax is
        # undefined for that return
        return None, f'returned {v!r} of type {type(v).__name__} (line 16 needs a float; the solve would abort)'
    return v, None


# ---------------------------------------------------------------------------
# oracle
def expect_table(year, base):
    k = (year, base)
    if k not in _EXPECT:
        _EXPECT[k] = {lo: S.expected_tax(year, base, lo) for lo, hi in S.table_rows()}
    return _EXPECT[k]


def expected(year, status_name, amount):
    if amount < S.TABLE_LIMIT:
        return expect_table(year, S.canonical(status_name))[S.table_row(amount)[0]]
    return S.expected_tax(year, status_name, amount)


def agrees(amount, got, exp):
    if amount < S.TABLE_LIMIT:
        return got == exp                       # whole dollars, exactly
    return abs(got - float(exp)) < TOL          # to the cent


def step_bound(year, status_name):
    return float(S.table_step(year, status_name))


def pair_failures(year, status_name, p, tp, q, tq):
    """consequences for two enumerated amounts p < q with defined taxes tp, tq"""
    out = []
    if tq < tp - 0.0005:
        out.append(('decreasing', f'tax({q})={tq} < tax({p})={tp}'))
    bound = float(S.TOP_RATE) * (q - p) + step_bound(year, status_name) + TOL
    if tq - tp > bound:
        out.append(('increment', f'tax({q})-tax({p})={tq - tp:.2f} exceeds 0.37*{q - p:.2f} + one table step ({bound:.2f})'))
    return out


# ---------------------------------------------------------------------------
# enumeration
def all_boundaries(year):
    b = set()
    for st in S.BASE_STATUSES:
        b.update(lo for lo, r in S.brackets(year, st) if lo > 0)
    return sorted(b)


def grid():
    g = sorted({int(round(10 ** (5 + 7 * i / (NGRID - 1)))) for i in range(NGRID)} | {100000, MAXIMUM})
    return [x for x in g if 100000 <= x <= MAXIMUM]


def edge_stride(tier, status_name):
    return 1 if (tier == 'thorough' or status_name == 'Single') else 10


def points_low(year, status_name, lo, hi, tier):
    """sorted [(amount, class)] for lo <= amount < hi (hi <= 100000)"""
    pts = {x: 'whole_dollar' for x in range(lo, hi)}
    stride = edge_stride(tier, status_name)
    for i, (rlo, rhi) in enumerate(S.table_rows() + [(S.TABLE_LIMIT, None)]):
        if i % stride and rlo != S.TABLE_LIMIT:
            continue
        for d in (-0.5, -0.01, 0.01, 0.5):
            x = round(rlo + d, 2)
            if x >= 0 and lo <= x < hi:
                pts.setdefault(x, 'edge_probe')
    for b in all_boundaries(year) + [S.TABLE_LIMIT]:
        for d in (-0.01, 0.01):
            x = round(b + d, 2)
            if lo <= x < hi:
                pts.setdefault(x, 'boundary')
    return sorted(pts.items())


def points_high(year):
    pts = {}
    for x in grid():
        pts[x] = 'grid'
    for b in all_boundaries(year) + [S.TABLE_LIMIT]:
        for d in (0, -0.01, 0.01):
            x = b if d == 0 else round(b + d, 2)
            if S.TABLE_LIMIT <= x <= MAXIMUM:
                pts[x] = 'boundary'
    pts[MAXIMUM - 0.01] = 'boundary'
    pts[MAXIMUM] = 'boundary'
    return sorted(pts.items())


def work_items(tier):
    items = []
    for y in YEARS:
        for lo in range(0, S.TABLE_LIMIT, CHUNK):
            items.append((y, lo, min(lo + CHUNK, S.TABLE_LIMIT), tier))
        items.append((y, S.TABLE_LIMIT, None, tier))
    return items


class Runs(object):
    """groups contiguous failing enumerated points of one (status, kind) into runs"""

    def __init__(self):
        self.done = []
        self.open = {}

    def point(self, idx, kind, amount, detail):
        r = self.open.get(kind)
        if r is not None and r['last_idx'] == idx - 1:
            r['last_idx'] = idx
            r['last'] = amount
            r['n'] += 1
            return
        if r is not None:
            self.done.append(r)
        self.open[kind] = dict(kind=kind, first=amount, last=amount, first_idx=idx, last_idx=idx, n=1, detail=detail)

    def close(self, npoints):
        self.done.extend(self.open.values())
        self.open = {}
        for r in self.done:
            r['at_start'] = r.pop('first_idx') == 0
            r['at_end'] = r.pop('last_idx') == npoints - 1
        return sorted(self.done, key=lambda r: (r['first'], r['kind']))


def eval_chunk(item):
    """worker: evaluate all five statuses on one chunk of amounts"""
    year, lo, hi, tier = item
    t0 = time.time()
    out = dict(year=year, lo=lo, calls=0, classes={}, per_status={}, counters={})
    joint, surv = joint_and_survivor(year)
    results = {}
    for st in statuses(year):
        name = st.name
        pts = points_low(year, name, lo, hi, tier) if hi is not None else points_high(year)
        runs = Runs()
        vals = []
        distinct = set()
        first = last = None
        samples = []
        rows_ok = set()
        for idx, (x, cls) in enumerate(pts):
            got, err = call(year, st, x)
            out['calls'] += 1
            out['classes'][cls] = out['classes'].get(cls, 0) + 1
            vals.append((x, got))
            if err is not None:
                runs.point(idx, 'undefined', x, f'figure_tax({x}, {name}) for {year} raised/returned: {err or "AssertionError"}')
                continue
            exp = expected(year, name, x)
            if not agrees(x, got, exp):
                runs.point(idx, 'mismatch', x, f'figure_tax({x}, {name}) for {year} = {got}, statutory schedule gives {float(exp)}')
            else:
                distinct.add(got)
                if x < S.TABLE_LIMIT:
                    rows_ok.add(S.table_row(x)[0])
            if last is not None:
                for kind, msg in pair_failures(year, name, last[0], last[1], x, got):
                    runs.point(idx, kind, x, f'{year} {name}: {msg}')
            if first is None:
                first = (x, got)
            last = (x, got)
            if len(samples) < 1 and idx == len(pts) // 2:
                samples.append((year, name, x, got))
        results[name] = vals
        out['per_status'][name] = dict(runs=runs.close(len(pts)), first=first, last=last, npoints=len(pts),
                                       distinct=distinct, samples=samples, rows_ok=len(rows_ok))
    # second pass in the other loop order (amount outer, status inner): the answer must not depend on what was asked before
    sts = list(statuses(year))
    firstpass = {st.name: dict(results[st.name]) for st in sts}
    common = None
    for st in sts:
        xs = set(firstpass[st.name])
        common = xs if common is None else (common & xs)
    hist = Runs()
    cpts = sorted(common or ())
    for idx, x in enumerate(cpts):
        for st in sts:
            got, err = call(year, st, x)
            out['calls'] += 1
            want = firstpass[st.name][x]
            if err is None and want is not None and got != want:
                hist.point(idx, 'call-history-dependent', x, f'figure_tax({x}, {st.name}) for {year} = {got} right after another status was asked for the same amount, {want} in a status-by-status sweep')
    out['per_status'].setdefault(sts[0].name, {}).setdefault('runs', [])
    out['per_status'][sts[0].name]['runs'] = list(out['per_status'][sts[0].name]['runs']) + hist.close(len(cpts))
    # surviving spouse == joint, point by point (same enumeration for both: neither is Single)
    if surv is not None:
        a, b = results[joint], results[surv]
        runs = Runs()
        if [x for x, v in a] != [x for x, v in b]:
            raise RuntimeError('enumerations of joint and surviving spouse differ')
        for idx, ((x, va), (_, vb)) in enumerate(zip(a, b)):
            if va != vb:
                runs.point(idx, 'qss_ne_mfj', x, f'{year}: figure_tax({x}) is {vb} for {surv} but {va} for {joint}')
        out['per_status'][surv]['runs'] += runs.close(len(a))
        out['counters']['qss_pairs_compared'] = len(a)
    out['wall'] = time.time() - t0
    return out


# ---------------------------------------------------------------------------
# labelling of a run of failing amounts
def label(year, status_name, first, last):
    if last < S.TABLE_LIMIT:
        return f'[{S.table_row(first)[0]},{S.table_row(last)[1]})'
    cuts = [S.TABLE_LIMIT] + [lo for lo, r in S.brackets(year, status_name) if lo > S.TABLE_LIMIT] + [MAXIMUM]
    # worksheet regions read "over lo but not over hi"
    hi = min(c for c in cuts if c >= last) if last <= MAXIMUM else last
    if first < S.TABLE_LIMIT:
        return f'[{S.table_row(first)[0]},{hi}]'
    if first <= S.TABLE_LIMIT:
        return f'[{S.TABLE_LIMIT},{hi}]'
    lo = max(c for c in cuts if c < first)
    return f'({lo},{hi}]'


_ROUTE = dict(command_lines=0, line16=0)


def cli_route():
    """habutax.main() on two single wage-earner returns (table and worksheet range) of every year with the year option in every position and spelling; line 16 of
    the written solution against the schedule of the year the command line names"""
    import os, configparser
    from hv import e3, cli
    from habutax.forms import available_forms
    out = []
    default_year = max(available_forms)
    for year in YEARS:
        for wages in ('60000', '236150'):
            base = e3.Base(f'C07-route-{wages}', ['1040'], dict(e3.W2, **{'w-2:0.box_1': wages, 'w-2:0.box_5': wages}))
            r, asked = e3.run_return(year, base, {})
            if r.exc is not None or not r.verdict:
                out.append((f'C07|{year}|cli-route|base', f'{year}: wage-earner return with {wages} does not solve in memory: {r.exc}', dict(kind='cli-route', year=year)))
                continue
            with cli.workdir() as d:
                inp, sol = os.path.join(d, 'in.ini'), os.path.join(d, 'sol.ini')
                cli.write_inputs(inp, r.final_inputs)
                for lab, argv in cli.argv_arrangements(year, ['1040'], inp, sol, default_year):
                    if os.path.exists(sol):
                        os.remove(sol)
                    res = cli.main_cli(argv)
                    _ROUTE['command_lines'] += 1
                    if res['exc'] == ('SystemExit', '2') and 'usage:' in res['stderr']:
                        continue
                    if res['exc'] is not None or not os.path.exists(sol):
                        out.append((f'C07|{year}|cli-route|{lab}|raised', f'{year} habutax {" ".join(argv[:5])} ...: {res["exc"]}', dict(kind='cli-route', year=year, wages=wages, label=lab)))
                        continue
                    cp = configparser.ConfigParser(interpolation=None)
                    with open(sol) as fh:
                        cp.read_file(fh)
                    stamp = cp.get('habutax', 'tax_year', fallback=None)
                    if stamp != str(year) or not cp.has_option('1040', '15') or not cp.has_option('1040', '16'):
                        out.append((f'C07|{year}|cli-route|{lab}|year',
                                    f'habutax {" ".join(a for a in argv if not a.startswith("/"))}: names year {year}; the solution is stamped tax_year={stamp!r} and '
                                    f'{"has" if cp.has_option("1040", "16") else "lacks"} line 16 (the in-memory solve of {year} has {r.solution["1040"].get("16")})',
                                    dict(kind='cli-route', year=year, wages=wages, label=lab)))
                        continue
                    ti, tax = float(cp['1040']['15']), float(cp['1040']['16'])
                    exp = expected(year, cp['1040']['filing_status'], ti)
                    _ROUTE['line16'] += 1
                    if not agrees(ti, tax, exp):
                        out.append((f'C07|{year}|cli-route|{lab}|line16',
                                    f'habutax {" ".join(a for a in argv if not a.startswith("/"))} for {year}: line 15 = {ti}, line 16 = {tax}, the {year} schedule gives {float(exp)}',
                                    dict(kind='cli-route', year=year, wages=wages, label=lab)))
    return out


def optimised_points():
    pts = []
    for year in YEARS:
        xs = set(range(0, 100000, 487)) | {0, 4, 5, 14, 15, 24, 25, 2999, 3000, 99949, 99950, 99999}
        for b in all_boundaries(year) + [100000]:
            xs.update([b - 0.01, b, b + 0.01])
        xs.update(grid()[::25])
        xs.add(MAXIMUM)
        for st in statuses(year):
            for x in sorted(v for v in xs if 0 <= v <= MAXIMUM):
                pts.append((year, st.name, x))
    return pts


def optimised_eval():
    """runs in the child interpreter: prints one JSON list of failures"""
    import json, sys
    bad = []
    pts = optimised_points()
    for year, name, x in pts:
        got, err = call(year, status_enum(year)[name], x)
        if err is not None:
            bad.append((year, name, x, f'figure_tax({x}, {name}) for {year} is undefined: {err}'))
            continue
        exp = expected(year, name, x)
        if not agrees(x, got, exp):
            bad.append((year, name, x, f'figure_tax({x}, {name}) for {year} = {got}, statutory schedule gives {float(exp)}'))
    json.dump(dict(optimised=not __debug__, n=len(pts), bad=bad), sys.stdout)


def optimised_route():
    """the same comparison in a child interpreter started with -O"""
    import json, subprocess, sys, os
    env = dict(os.environ)
    env['PYTHONPATH'] = os.pathsep.join(p for p in sys.path if p)
    p = subprocess.run([sys.executable, '-O', '-B', '-W', 'ignore', '-c', 'from hv.props import c07; c07.optimised_eval()'],
                       capture_output=True, text=True, env=env, cwd=os.path.dirname(os.path.dirname(os.path.dirname(os.path.abspath(__file__)))))
    try:
        d = json.loads(p.stdout[p.stdout.index('{'):])
    except Exception:
        return [(0, '-', 0, f'child interpreter failed: rc={p.returncode} {p.stderr[-300:]}')], 0
    if not d['optimised']:
        return [(0, '-', 0, 'child interpreter did not run optimised')], 0
    return [tuple(b) for b in d['bad']], d['n']


def run(tier):
    run = runner.Run(PID, tier, 'exploration',
                     'E5: figure_tax(x, status) of each year enumerated over every whole dollar 0..99999 x 5 statuses x 3 years '
                     '(exhaustive), +-0.01/+-0.5 probes at table-row edges, every statutory bracket boundary and +-0.01, 100000 '
                     'and +-0.01, and a fixed geometric grid of 2000 whole-dollar amounts 1e5..1e12; oracle = independent '
                     'statutory brackets (hv/statutory.py) with the table midpoint rule; distinct = (year, status, tax value) '
                     'triples that agreed with the oracle (one per table row / grid amount, i.e. not the number of calls)')
    run.exhaustive = True
    run.assumptions += [
        'hv/statutory.py (Rev. Proc. 2020-45, 2021-45, 2022-38 brackets; midpoint/half-up Tax Table rule) is the oracle',
        'exhaustive refers to the whole-dollar domain [0,100000) x 5 statuses x 3 years; amounts with cents and amounts '
        '>= 100000 are covered at row edges, bracket boundaries and the fixed grid only',
        'only ordinary-rate tax (figure_tax) is checked here; its use by 1040 line 16 / QDCG worksheet is checked on E3 returns elsewhere',
    ]
    # harness sanity: which enum each year's module uses
    import habutax.enum as E
    for y in YEARS:
        m = module(y)
        used = getattr(m, 'filing_status', None)
        if used is not None and used is not status_enum(y):
            run.harness_error(f'ty{y} figure_tax module uses enum {used!r}, harness passes {status_enum(y)!r}')
        if len(statuses(y)) != 5:
            run.harness_error(f'{y}: expected five filing statuses, enum has {len(statuses(y))}')
    # oracle tables are built before forking so the workers inherit them
    t0 = time.time()
    for y in YEARS:
        for st in S.BASE_STATUSES:
            expect_table(y, st)
    run.extra['oracle_build_s'] = round(time.time() - t0, 2)

    items = work_items(tier)
    t0 = time.time()
    results = runner.pmap(eval_chunk, items, chunksize=1)
    run.extra['enumeration_wall_s'] = round(time.time() - t0, 2)
    run.extra['worker_cpu_s'] = round(sum(r['wall'] for r in results), 1)

    # merge, in amount order per (year, status)
    per = {}
    for r in results:
        run.evaluations += r['calls']
        for cls, n in r['classes'].items():
            run.count(f'calls.{cls}', n)
        run.merge_counts(r['counters'])
        for name, d in r['per_status'].items():
            per.setdefault((r['year'], name), []).append((r['lo'], d))
    findings = []
    for (year, name), chunks in sorted(per.items()):
        chunks.sort(key=lambda c: c[0])
        open_runs = {}
        last = None
        rows_ok = 0
        for lo, d in chunks:
            rows_ok += d['rows_ok']
            for v in d['distinct']:
                run.outcome((year, name, v))
            for s in d['samples']:
                if (year, name, lo) in SAMPLE_AT:
                    run.sample(dict(year=s[0], status=s[1], amount=s[2], tax=s[3]), cap=len(SAMPLE_AT))
            # consequences across the chunk boundary
            if last is not None and d['first'] is not None:
                for kind, msg in pair_failures(year, name, last[0], last[1], d['first'][0], d['first'][1]):
                    findings.append((year, name, dict(kind=kind, first=d['first'][0], last=d['first'][0], n=1,
                                                      detail=f'{year} {name}: {msg}', prev=last[0])))
                run.count('pairs.cross_chunk')
            if d['last'] is not None:
                last = d['last']
            seen = set()
            for r in d['runs']:
                k = r['kind']
                o = open_runs.get(k)
                if o is not None and r['at_start'] and k not in seen:
                    o['last'] = r['last']
                    o['n'] += r['n']
                    o['at_end'] = r['at_end']
                else:
                    if o is not None:
                        findings.append((year, name, o))
                    open_runs[k] = o = dict(r)
                seen.add(k)
                if not o['at_end']:
                    findings.append((year, name, open_runs.pop(k)))
            for k in list(open_runs):
                if k not in seen:          # run ended exactly at the previous chunk's end
                    findings.append((year, name, open_runs.pop(k)))
        for o in open_runs.values():
            findings.append((year, name, o))
        run.count('table_rows_agreeing', rows_ok)
        run.count('status_year_combinations')
    for year, name, r in findings:
        run.count(f'failing_points.{r["kind"]}', r['n'])
        run.count(f'failing_runs.{r["kind"]}')
        lab = label(year, name, r['first'], r['last'])
        key = f'C07|{year}|{name}|{r["kind"]}|{lab}'
        case = dict(year=year, status=name, amount=r['first'], kind=r['kind'])
        if 'prev' in r:
            case['prev'] = r['prev']
        what = (f'{r["detail"]}; {r["n"]} contiguous enumerated amount(s) from {r["first"]} to {r["last"]} fail the same way')
        run.violation(key, case, what)
    # --- routes by which the schedule reaches a filer: the console entry point with --year in every position, and an
    # interpreter started with -O (assert statements compiled out)
    for k, what, case in cli_route():
        run.violation(k, case, what)
    run.count('cli_route.command_lines', _ROUTE['command_lines'])
    run.count('cli_route.line16_checked', _ROUTE['line16'])
    run.evaluations += _ROUTE['command_lines']
    bad, n = optimised_route()
    run.count('optimised_interpreter.calls', n)
    run.evaluations += n
    for year, name, x, msg in bad[:40]:
        run.violation(f'C07|{year}|{name}|python-O|{label(year, name, x, x)}', dict(year=year, status=name, amount=x, kind='python-O', optimised=True),
                      f'under python -O: {msg}')
    run.extra['covered'] = dict(
        tier=tier,
        whole_dollars='every whole dollar 0..99999 for all 5 statuses of 2021, 2022, 2023 (both tiers)',
        edge_probes=('e-0.5, e-0.01, e+0.01, e+0.5 at every table-row edge e for every status' if tier == 'thorough' else
                     'e-0.5, e-0.01, e+0.01, e+0.5 at every table-row edge for Single, every 10th edge for the other four statuses'),
        boundaries={str(y): all_boundaries(y) for y in YEARS},
        grid=dict(n=len(grid()), first=grid()[0], last=grid()[-1], rule='round(10**(5+7*i/1999)), i=0..1999, whole dollars, de-duplicated'),
        table_rows_per_year=len(S.table_rows()),
        work_items=len(items), whole_dollar_chunk=CHUNK,
    )
    return run.finish()


def replay(case):
    if case.get('kind') == 'cli-route':
        out = [o for o in cli_route() if o[2].get('year') == case['year']]
        return (not out), (out[0][1] if out else 'every command line solves the year it names')
    if case.get('kind') == 'python-O':
        bad, n = optimised_route()
        return (not bad), (bad[0][3] if bad else f'{n} calls agree under python -O')
    year, name, x = case['year'], case['status'], case['amount']
    st = status_enum(year)[name]
    got, err = call(year, st, x)
    if err is not None:
        return False, f'figure_tax({x}, {name}) for {year} is undefined: {err or "AssertionError"}'
    exp = expected(year, name, x)
    if not agrees(x, got, exp):
        return False, f'figure_tax({x}, {name}) for {year} = {got}, statutory schedule gives {float(exp)}'
    joint, surv = joint_and_survivor(year)
    if name == surv:
        other, e2 = call(year, status_enum(year)[joint], x)
        if other != got:
            return False, f'{year}: figure_tax({x}) is {got} for {surv} but {other if e2 is None else e2} for {joint}'
    prevs = [case['prev']] if case.get('prev') is not None else []
    if not prevs and x >= 0.01:
        prevs = [x - 1 if isinstance(x, int) and x >= 1 else round(x - 0.01, 2)]
    for p in prevs:
        tp, e2 = call(year, st, p)
        if e2 is None:
            f = pair_failures(year, name, p, tp, x, got)
            if f:
                return False, f'{year} {name}: {f[0][1]}'
    return True, f'figure_tax({x}, {name}) for {year} = {got} agrees with the statutory schedule'
