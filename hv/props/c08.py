"""C08: year- and status-indexed statutory amounts are the official ones.

Exhaustive over the (tax year, filing status, amount name) triples of hv.statutory_amounts.AMOUNTS
(an independent table written from Rev. Proc. 2020-45 / 2021-45 / 2022-38, the form instructions and
N.C. D-401).  Every triple gets a WITNESS built on the real code:

  echo   a real return (hv.e3 base return + assignment selecting the status and whatever makes the
         amount appear) is solved and the line that echoes the amount must equal the table;
  gate   two real returns, one cent (or dollar) on either side of the official threshold, whose
         operand line is tuned to sit exactly there; the outcome (solved / named unimplemented line /
         form present / Schedule 2 abort) must flip exactly at the official value;
  line   the single line definition is evaluated alone (FormAccessor over scripted operands) for
         amounts whose line is not reachable in a solvable return or that are tables of many tiers.

Second leg: amounts printed in the bundled templates (visible page text, and XFA <speak> texts) are
parsed and compared with the same table.

A triple is either checked (run.outcome((year, status, name))) or listed under
coverage.unwitnessed with the reason.  Violation key: C08|year|name|status.
"""
import re
import os
import time

import hv
from hv import runner, e3, e4, statutory_amounts as A

PID = 'C08'
EPS = 0.005
B0, B2, BNC = 'B0-single-wage', 'B2-investor', 'B6-nc'
# thorough: every return-based witness is repeated with extra pension income and estimated payments on top
VARIANT = {0: {}, 1: {'1040.number_1099-r': '1', '1099-r:0.box_1': '9000', '1099-r:0.box_2a': '9000',
                      '1099-r:0.box_7_ira_sep_simple': 'no', '1040.estimated_tax_payments': '700'}}
S2_ABORT = 'Form 1040_s2 is not supported'


class Skip(Exception):
    """the witness could not be constructed: the triple is reported as unwitnessed with this reason"""


# ---------------------------------------------------------------------------------------------
# helpers on real returns
def money(x):
    return f'{x:.2f}'


class Ctx(object):
    def __init__(self, year, name, status, variant=0):
        self.year, self.name, self.status, self.variant = year, name, status, variant
        self.off = A.value(year, name, status)
        self.nret = 0
        self.nline = 0
        self.notes = []

    def st(self, **more):
        a = {'1040.filing_status': self.status}
        a.update(VARIANT[self.variant])
        a.update({k.replace('__', '.'): v for k, v in more.items()})
        return a

    def solve(self, base, assign):
        self.nret += 1
        r, asked = e3.run_return(self.year, e3.base_by_name(base, self.year), assign, instrument=False)
        return r

    def tune(self, base, assign, operand, target, knob='w-2:0.box_1', guess=None):
        """returns a return whose operand(r) == target, by moving the wage knob"""
        a = dict(assign)
        if guess is not None:
            a[knob] = money(guess)
        r = self.solve(base, a)
        for _ in range(3):
            x = operand(r)
            if x is None:
                raise Skip(f'operand not computed while tuning ({r.outcome_class()} {r.exc} {sorted(r.unimpl)[:3]})')
            if abs(x - target) < EPS:
                return r, a
            cur = float(a.get(knob) or e3.base_by_name(base, self.year).over.get(knob) or 0)
            new = cur + (target - x)
            if new < 0:
                raise Skip(f'cannot reach operand {target}: wage knob would be negative')
            a[knob] = money(new)
            r = self.solve(base, a)
        raise Skip(f'operand does not converge to {target} (got {operand(r)})')


def val(r, full):
    sec, line = full.rsplit('.', 1)
    s = r.solution.get(sec, {}).get(line)
    if s is None or s == '':
        return None
    if s in ('True', 'False'):
        return s == 'True'
    try:
        return float(s)
    except ValueError:
        return s


def op(full, minus=None):
    def f(r):
        x = val(r, full)
        if x is None:
            return None
        if minus:
            y = val(r, minus)
            return x - (y or 0.0)
        return x
    return f


def solved(r):
    return r.exc is None and r.verdict is True and not r.unimpl


def describe(r):
    return f'{r.outcome_class()}{" " + r.exc[1][:60] if r.exc else ""}{" unimplemented " + ",".join(sorted(r.unimpl)[:4]) if r.unimpl else ""}'


def need_solved(r, fails):
    if not solved(r):
        raise Skip(f'witness return does not solve: {describe(r)}')


def eq(fails, what, got, exp, tol=EPS):
    if got is None:
        fails.append(f'{what}: line not computed (official {exp})')
    elif abs(float(got) - float(exp)) > tol:
        fails.append(f'{what} = {got:g}, official {float(exp):g}')


# ---------------------------------------------------------------------------------------------
# helpers on single line definitions
class _D(dict):
    def __missing__(self, k):
        raise Skip(f'line evaluation read an unscripted operand {k}')


_ENUM = {}


def status_member(year, status):
    if year not in _ENUM:
        from habutax.forms import available_forms
        C = [c for c in available_forms[year] if c.form_name == '1040'][0]
        inp = [i for i in C().inputs() if i.base_name() == 'filing_status'][0]
        _ENUM[year] = inp.enum
    return _ENUM[year][status]


def eval_line(c, form_name, line, iv=None, vv=None, inst=None):
    """evaluate one line definition alone; returns ('value', v) | ('unimpl',) | ('raised', text)"""
    from habutax import form as hform, fields as hf
    from habutax.forms import available_forms
    c.nline += 1
    solver = e4.StubSolver(c.year)
    C = [x for x in available_forms[c.year] if x.form_name == form_name][0]
    form = C(solver=solver, instance=inst)
    solver.forms[form.name()] = form
    fl = [f for f in form.fields() if f.base_name() == line]
    if not fl:
        raise Skip(f'form {form_name} of {c.year} has no line {line}')
    I = _D({'1040.filing_status': status_member(c.year, c.status)})
    for k, v in (iv or {}).items():
        I[k if '.' in k else f'{form.name()}.{k}'] = v
    V = _D()
    for k, v in (vv or {}).items():
        V[k if '.' in k else f'{form.name()}.{k}'] = v
    try:
        return ('value', fl[0].value(hform.FormAccessor(I, form), hform.FormAccessor(V, form)))
    except hf.FieldNotImplemented:
        return ('unimpl',)
    except Skip:
        raise
    except Exception as e:
        return ('raised', f'{type(e).__name__}: {e}'[:120])


def line_eq(c, fails, what, form_name, line, exp, iv=None, vv=None, tol=EPS):
    out = eval_line(c, form_name, line, iv, vv)
    if out[0] != 'value':
        fails.append(f'{what}: line definition {form_name}.{line} gives {out}, official {float(exp):g}')
    else:
        eq(fails, what, out[1], exp, tol)


# ---------------------------------------------------------------------------------------------
# witnesses: fn(c) -> list of failure texts
def gate(c, fails, base, assign, operand, T, step, classify, lo, hi, guess=None, what='threshold'):
    """outcome classes at operand == T and operand == T + step must be lo and hi"""
    r1, a1 = c.tune(base, assign, operand, T, guess=guess)
    k1 = classify(r1)
    a2 = dict(a1)
    a2['w-2:0.box_1'] = money(float(a1['w-2:0.box_1']) + step)
    r2 = c.solve(base, a2)
    x2 = operand(r2)
    if x2 is not None and abs(x2 - (T + step)) > EPS:
        raise Skip(f'operand did not follow the wage knob ({x2} vs {T + step})')
    k2 = classify(r2)
    if k1 != lo:
        fails.append(f'{what}: at exactly the official {T:g} the outcome is "{k1}" ({describe(r1)}), expected "{lo}"')
    if k2 != hi:
        fails.append(f'{what}: at {T + step:g} (official {T:g} + {step:g}) the outcome is "{k2}" ({describe(r2)}), expected "{hi}"')
    return r1, r2


def unimpl_class(line):
    def f(r):
        if r.exc is not None:
            return 'abort'
        if line in r.unimpl:
            return 'not-implemented'
        return 'solved' if solved(r) else 'other'
    return f


def w_standard_deduction(c):
    fails = []
    r = c.solve(B0, c.st())
    need_solved(r, fails)
    eq(fails, 'Form 1040 line 12', val(r, '1040.12a' if c.year == 2021 else '1040.12'), c.off)
    return fails


def _investor(c, wages=150000):
    # (no section 199A dividends: the Form 8995 gate is a different amount)
    r = c.solve(B2, c.st(**{'w-2:0__box_1': money(wages), 'w-2:0__box_5': '60000', '1099-div:0__box_5': '0'}))
    need_solved(r, [])
    return r


def w_qdcg(line):
    def f(c):
        fails = []
        r = _investor(c)
        eq(fails, f'QDCG worksheet line {line}', val(r, f'1040_qualdiv_capgain_tax_wkst.{line}'), c.off)
        return fails
    return f


def w_capgain_15(c):
    fails = []
    r = _investor(c)
    l17, l18 = val(r, '1040_qualdiv_capgain_tax_wkst.17'), val(r, '1040_qualdiv_capgain_tax_wkst.18')
    if not l17:
        raise Skip('witness return has nothing taxed at 15%')
    eq(fails, f'QDCG worksheet line 18 for line 17 = {l17}', l18, l17 * float(c.off), 0.006)
    return fails


def w_capgain_20(c):
    fails = []
    line_eq(c, fails, 'QDCG worksheet line 21 for line 20 = 1000', '1040_qualdiv_capgain_tax_wkst', '21', 1000 * c.off, vv={'20': 1000.0})
    return fails


def w_amt_exemption(c):
    fails = []
    r = c.solve(B0, c.st())
    need_solved(r, fails)
    eq(fails, '6251 worksheet line 6', val(r, '1040_s2_need_6251.6'), c.off)
    return fails


def w_amt_phaseout_start(c):
    fails = []
    ex = A.value(c.year, 'amt_exemption', c.status)
    r = c.solve(B0, c.st(**{'w-2:0__box_1': money(ex + 20000)}))
    need_solved(r, fails)
    eq(fails, '6251 worksheet line 8', val(r, '1040_s2_need_6251.8'), c.off)
    return fails


def w_amt_breakpoint(c):
    fails = []
    T = float(c.off)
    # (a) the line definition alone, under this status
    for x, exp in ((T, False), (T + 0.01, True)):
        out = eval_line(c, '1040_s2_need_6251', 'need_6251', vv={'5': 1e6, '6': 1.0, '11': x, '12': 0.0, '13': 1.0})
        if out != ('value', exp):
            fails.append(f'6251 worksheet: line 11 = {x:.2f} against the official ${T:,.0f}: need_6251 is {out}, expected {exp}')
    # (b) the real return: line 11 tuned to the breakpoint, then one dollar more
    def cls(r):
        if r.exc is not None:
            return 'abort-schedule-2' if S2_ABORT in r.exc[1] else 'abort'
        return 'solved' if solved(r) else 'other'
    ex = A.value(c.year, 'amt_exemption', c.status)
    r1, r2 = gate(c, fails, B0, c.st(), op('1040_s2_need_6251.11'), T, 1.0, cls, 'solved', 'abort-schedule-2',
                  guess=T + ex, what='6251 worksheet line 12 comparison')
    return fails


def w_amt_rate_26(c):
    fails = []
    line_eq(c, fails, '6251 worksheet line 12 for line 11 = 1000', '1040_s2_need_6251', '12', 1000 * c.off, vv={'11': 1000.0})
    return fails


def w_amt_phaseout_rate(c):
    fails = []
    line_eq(c, fails, '6251 worksheet line 10 for line 9 = 1000', '1040_s2_need_6251', '10', 1000 * c.off, vv={'6': 1e9, '9': 1000.0})
    return fails


def w_saver(c):
    fails = []
    a = c.st(**{'1040__need_schedule_3_part_i': 'yes', '1040_s3__retirement_savings_contributions': 'yes'})
    gate(c, fails, B0, a, op('1040.11'), float(c.off), 0.01, unimpl_class('1040_s3.4'), 'not-implemented', 'solved',
         guess=float(c.off), what="saver's credit AGI limit (Schedule 3 line 4)")
    return fails


def w_form_1116(c):
    fails = []
    T = float(c.off)
    base = {'1040__number_1099-int': '1', '1099-int:0__box_1': '100', '1099-int:0__payer': 'Bank'}
    r1 = c.solve(B0, c.st(**dict(base, **{'1099-int:0__box_6': money(T)})))
    r2 = c.solve(B0, c.st(**dict(base, **{'1099-int:0__box_6': money(T + 0.01)})))
    if not solved(r1):
        fails.append(f'foreign tax exactly ${T:g}: {describe(r1)}, expected the credit on Schedule 3 line 1')
    else:
        eq(fails, 'Schedule 3 line 1', val(r1, '1040_s3.1'), T)
    if '1040_s3.1' not in r2.unimpl:
        fails.append(f'foreign tax ${T + 0.01:.2f} (over the official ${T:g}): {describe(r2)}, expected Schedule 3 line 1 not implemented (Form 1116)')
    return fails


def _kids(c, ctc, odc, wages=90000, **more):
    """return with `ctc` qualifying children and `odc` other dependents"""
    n = ctc + odc
    a = {'1040__number_dependents': str(n), 'w-2:0__box_1': money(wages)}
    for k in range(n):
        a[f'1040__dependent_{k}_ctc'] = 'yes' if k < ctc else 'no'
        a[f'1040__dependent_{k}_odc'] = 'no' if k < ctc else 'yes'
    if c.year == 2021:
        a.update({'1040_s8812__number_under_18': str(ctc), '1040_s8812__number_under_6': str(min(1, ctc)),
                  '1040_s8812__principal_abode_us': 'yes', '1040_s8812__number_children_letter': str(ctc),
                  '1040_s8812__advance_ctc_payments': '0'})
    else:
        a['1040_s8812__number_under_17'] = str(ctc)
    a.update(more)
    return c.solve(B0, c.st(**a))


def w_8812(line, mult=1, ctc=1, odc=1):
    def f(c):
        fails = []
        r = _kids(c, ctc, odc)
        need_solved(r, fails)
        eq(fails, f'Schedule 8812 line {line}', val(r, f'1040_s8812.{line}'), float(c.off) * mult)
        return fails
    return f


def w_ctc_per_child(c):
    if c.year == 2021:
        return w_8812('5_ws_4', 2, ctc=2, odc=0)(c)
    return w_8812('5', 2, ctc=2, odc=0)(c)


def w_ctc_rate(c):
    fails = []
    line_eq(c, fails, 'Schedule 8812 line 11 for line 10 = 1000', '1040_s8812', '11', 1000 * c.off, vv={'10': 1000.0})
    if c.year == 2021:
        line_eq(c, fails, 'Line 5 Worksheet line 10 for line 9 = 1000', '1040_s8812', '5_ws_10', 1000 * c.off, vv={'5_ws_9': 1000.0})
    return fails


def w_actc(c):
    fails = []
    r = _kids(c, 1, 0, wages=30000)
    if r.exc is not None:
        raise Skip(f'witness return aborts: {describe(r)}')
    x = val(r, '1040_s8812.16b')
    if x is None:
        raise Skip(f'line 16b not reached ({describe(r)})')
    eq(fails, 'Schedule 8812 line 16b (one child)', x, c.off)
    return fails


def w_ctc2021_repayment(line, per=1):
    def f(c):
        fails = []
        r = _kids(c, 1, 0, wages=30000, **{'1040_s8812__number_children_letter': '2', '1040_s8812__advance_ctc_payments': '3700'})
        x = val(r, f'1040_s8812.{line}')
        if r.exc is not None or x is None:
            # not reached in a return: evaluate the definition alone
            out = eval_line(c, '1040_s8812', line, vv={'32': 1})
            if out[0] != 'value':
                raise Skip(f'line {line} cannot be computed at all: in a return {describe(r)}; alone {out}')
            x = out[1]
        eq(fails, f'Schedule 8812 line {line}', x, float(c.off) * per)
        return fails
    return f


def _itemize(c, **more):
    a = {'1040__itemize': 'yes', '1040__number_1098': '1', '1098:0__box_1': '21000',
         '1040_sa__state_local_real_estate_taxes': '20000'}
    a.update(more)
    return c.st(**a)


def w_salt(c):
    fails = []
    r = c.solve(B0, _itemize(c))
    need_solved(r, fails)
    if val(r, '1040.itemizing') is not True:
        raise Skip('witness return does not itemize')
    eq(fails, 'Schedule A line 5e (line 5d = %s)' % val(r, '1040_sa.5d'), val(r, '1040_sa.5e'), c.off)
    return fails


def w_medical_rate(c):
    fails = []
    r = c.solve(B0, _itemize(c, **{'1040_sa__medical_dental_expenses': '9000'}))
    need_solved(r, fails)
    agi = val(r, '1040_sa.2')
    eq(fails, f'Schedule A line 3 for AGI {agi}', val(r, '1040_sa.3'), agi * float(c.off), 0.006)
    return fails


def w_8283(c):
    fails = []
    T = float(c.off)
    r1 = c.solve(B0, _itemize(c, **{'1040_sa__charitable_other_than_cash_check': money(T), '1040_sa__filling_8283': 'no'}))
    r2 = c.solve(B0, _itemize(c, **{'1040_sa__charitable_other_than_cash_check': money(T + 0.01), '1040_sa__filling_8283': 'no'}))
    if not solved(r1):
        fails.append(f'noncash gifts exactly ${T:g}: {describe(r1)}, expected solved without Form 8283')
    if not [u for u in r2.unimpl if u.startswith('1040_sa.')]:
        fails.append(f'noncash gifts ${T + 0.01:.2f} without Form 8283: {describe(r2)}, expected a Schedule A line not implemented')
    return fails


def w_mortgage_insurance(c):
    fails = []
    a = _itemize(c, **{'1098:0__box_5': '1000', '1040_sa__mortgage_insurance_premiums_special': 'yes'})
    gate(c, fails, B0, a, op('1040.11'), float(c.off), 0.01, unimpl_class('1040_sa.8d'), 'solved', 'not-implemented',
         guess=float(c.off), what='mortgage insurance premiums AGI limit (Schedule A line 8d)')
    return fails


def w_hsa(family):
    def f(c):
        fails = []
        a = c.st(**{'1040__schedule_1_income_adjustments': 'yes', '1040_s1__hsa_contribution_you': 'yes',
                    '1040_s1__hsa_contribution_spouse': 'no', '8889:you__hsa_full_year': 'yes', '8889:you__age_under_55': 'yes',
                    '8889:you__hdhp_plan_family': 'yes' if family else 'no', '8889:you__hsa_contributions': '1000'})
        r = c.solve(B0, a)
        need_solved(r, fails)
        eq(fails, 'Form 8889 line 3 (%s coverage)' % ('family' if family else 'self-only'), val(r, '8889:you.3'), c.off)
        return fails
    return f


def _two_w2(c, total, **more):
    half = total / 2.0
    a = {'1040__number_w-2': '2', 'w-2:0__box_1': '60000', 'w-2:1__box_1': '1000', 'w-2:1__box_2': '0',
         'w-2:0__box_5': money(half), 'w-2:1__box_5': money(total - half), 'w-2:0__box_6': money(half * 0.0145),
         'w-2:1__box_6': money((total - half) * 0.0145), 'w-2:1__belongs_to': 'taxpayer'}
    a.update(more)
    return c.solve(B0, c.st(**a))


def w_addl_medicare(c):
    fails = []
    T = float(c.off)
    r1, r2 = _two_w2(c, T), _two_w2(c, T + 1)
    for r in (r1, r2):
        need_solved(r, fails)
    if '8959' in r1.solution:
        fails.append(f'Medicare wages exactly ${T:,.0f} (two employers): Form 8959 is required, official threshold not exceeded')
    if '8959' not in r2.solution:
        fails.append(f'Medicare wages ${T + 1:,.0f} (over the official ${T:,.0f}): Form 8959 is not produced')
    else:
        for ln in ('5', '9', '15'):
            x = val(r2, f'8959.{ln}')
            if x is not None or ln == '5':
                eq(fails, f'Form 8959 line {ln}', x, T)
    return fails


def w_addl_medicare_withholding(c):
    if c.status != 'MarriedFilingJointly':
        raise Skip('masked: the status threshold (<= $200,000) triggers Form 8959 at or below the per-employer $200,000')
    fails = []
    T = float(c.off)
    one = lambda x: c.solve(B0, c.st(**{'w-2:0__box_5': money(x), 'w-2:0__box_6': money(x * 0.0145)}))
    r1, r2 = one(T), one(T + 1)
    for r in (r1, r2):
        need_solved(r, fails)
    if '8959' in r1.solution:
        fails.append(f'one employer, Medicare wages exactly ${T:,.0f}: Form 8959 produced')
    if '8959' not in r2.solution:
        fails.append(f'one employer, Medicare wages ${T + 1:,.0f}: Form 8959 not produced')
    return fails


def w_8959_rate(which):
    def f(c):
        fails = []
        T = float(A.value(c.year, 'addl_medicare_threshold', c.status))
        r = _two_w2(c, T + 10000)
        need_solved(r, fails)
        if which == 'addl':
            l6 = val(r, '8959.6')
            if not l6:
                raise Skip('Form 8959 line 6 is zero in the witness')
            eq(fails, f'Form 8959 line 7 for line 6 = {l6}', val(r, '8959.7'), l6 * float(c.off), 0.006)
        else:
            l20 = val(r, '8959.20')
            if not l20:
                raise Skip('Form 8959 line 20 is zero in the witness')
            eq(fails, f'Form 8959 line 21 for line 20 = {l20}', val(r, '8959.21'), l20 * float(c.off), 0.006)
        return fails
    return f


def _qbi_assign(c):
    # a large mortgage (and, in 2021 where the operand is income after deductions, a taxable state refund that the
    # 6251 worksheet subtracts again) keeps the 6251 worksheet quiet at joint-return incomes
    a = {'1040__number_1099-div': '1', '1099-div:0__payer': 'Fund', '1099-div:0__box_1a': '1000',
         '1099-div:0__box_5': '500', '1098:0__box_1': '120000', '1040_sa__state_local_real_estate_taxes': '0'}
    if c.year == 2021:
        a.update({'1040__number_1099-g': '1', '1099-g:0__box_2': '40000'})
    return _itemize(c, **a)


def w_qbi(c):
    fails = []
    T = float(c.off)
    operand = op('1040.11', '1040.12c') if c.year == 2021 else op('1040.11')
    what = 'Form 8995 income threshold (Form 1040 line 13; operand: %s)' % ('line 11 - line 12c' if c.year == 2021 else 'line 11')
    r1, r2 = gate(c, fails, B0, _qbi_assign(c), operand, T, 0.01, unimpl_class('1040.13'), 'solved', 'not-implemented',
                  guess=T + (121000 if c.year == 2021 else 0), what=what)
    if solved(r1) and '8995' not in r1.solution:
        fails.append('at the threshold Form 8995 is not produced')
    return fails


def w_qbi_rate(c):
    fails = []
    r = c.solve(B0, c.st(**{'1040__number_1099-div': '1', '1099-div:0__payer': 'Fund', '1099-div:0__box_1a': '1000',
                            '1099-div:0__box_5': '500'}))
    need_solved(r, fails)
    eq(fails, 'Form 8995 line 9 for line 8 = %s' % val(r, '8995.8'), val(r, '8995.9'), (val(r, '8995.8') or 0) * float(c.off), 0.006)
    eq(fails, 'Form 8995 line 14 for line 13 = %s' % val(r, '8995.13'), val(r, '8995.14'), (val(r, '8995.13') or 0) * float(c.off), 0.006)
    return fails


def EIC(c):
    return '1040.27a' if c.year == 2021 else '1040.27'


def _eic_assign(c, n):
    a = {'1040__number_dependents': str(n)}
    for k in range(n):
        a[f'1040__dependent_{k}_ctc'] = 'no'
        a[f'1040__dependent_{k}_odc'] = 'no'
    if c.year == 2021:
        a.update({'1040_s8812__number_under_18': '0', '1040_s8812__number_under_6': '0', '1040_s8812__principal_abode_us': 'yes',
                  '1040_s8812__number_children_letter': '0', '1040_s8812__advance_ctc_payments': '0'})
    else:
        a['1040_s8812__number_under_17'] = '0'
    return a


def w_eic(n):
    def f(c):
        fails = []
        T = float(c.off)
        # official: AGI must be LESS than the limit; so T - 0.01 is eligible (line 27 not implemented), T is not
        a = c.st(**_eic_assign(c, n))
        r1, a1 = c.tune(B0, a, op('1040.11'), T - 0.01, guess=T - 0.01)
        a2 = dict(a1)
        a2['w-2:0.box_1'] = money(float(a1['w-2:0.box_1']) + 0.01)
        r2 = c.solve(B0, a2)
        if abs((val(r2, '1040.11') or 0) - T) > EPS:
            raise Skip('AGI did not follow the wage knob')
        if EIC(c) not in r1.unimpl:
            fails.append(f'AGI ${T - 0.01:,.2f} (under the official ${T:,.0f}, {n} children): {describe(r1)}, expected line 27 (EIC) not implemented')
        if EIC(c) in r2.unimpl or not solved(r2):
            fails.append(f'AGI exactly the official ${T:,.0f} ({n} children): {describe(r2)}, expected no EIC and a solved return')
        return fails
    return f


def w_eic_investment(c):
    fails = []
    T = float(c.off)
    # one dependent, so that AGI (wages 3,000 + the interest, + 9,000 pension on the second base) stays under the AGI limit
    mk = lambda x: c.solve(B0, c.st(**dict(_eic_assign(c, 1), **{'w-2:0__box_1': '3000', '1040__number_1099-int': '1',
                                                                 '1099-int:0__payer': 'Bank', '1099-int:0__box_1': money(x)})))
    r1, r2 = mk(T), mk(T + 0.01)
    if EIC(c) not in r1.unimpl:
        fails.append(f'investment income exactly ${T:,.0f}: {describe(r1)}, expected line 27 (EIC) not implemented')
    if EIC(c) in r2.unimpl or not solved(r2):
        fails.append(f'investment income ${T + 0.01:,.2f} (over the official ${T:,.0f}): {describe(r2)}, expected no EIC and a solved return')
    return fails


def w_sched_b(kind):
    def f(c):
        fails = []
        T = float(c.off)
        if kind == 'int':
            mk = lambda x: c.solve(B0, c.st(**{'1040__number_1099-int': '1', '1099-int:0__payer': 'Bank', '1099-int:0__box_1': money(x)}))
            ln = '1040_sb.4'
        else:
            mk = lambda x: c.solve(B0, c.st(**{'1040__number_1099-div': '1', '1099-div:0__payer': 'Fund', '1099-div:0__box_1a': money(x)}))
            ln = '1040_sb.6'
        r1, r2 = mk(T), mk(T + 0.01)
        for r in (r1, r2):
            need_solved(r, fails)
        if val(r1, ln) is not None:
            fails.append(f'{kind} exactly ${T:,.0f}: Schedule B produced')
        if val(r2, ln) is None:
            fails.append(f'{kind} ${T + 0.01:,.2f} (over the official ${T:,.0f}): Schedule B not produced')
        return fails
    return f


def w_educator(c):
    fails = []
    T = float(c.off)
    mk = lambda x: c.solve(B0, c.st(**{'1040__schedule_1_income_adjustments': 'yes', '1040_s1__educator_expenses': money(x)}))
    r1, r2 = mk(T), mk(T + 1)
    if not solved(r1) or abs((val(r1, '1040_s1.11') or 0) - T) > EPS:
        fails.append(f'educator expenses exactly the official maximum ${T:g}: {describe(r1)}, Schedule 1 line 11 = {val(r1, "1040_s1.11")}, expected ${T:g} deducted')
    x2 = val(r2, '1040_s1.11')
    if solved(r2) and x2 is not None and x2 > T + EPS:
        fails.append(f'educator expenses ${T + 1:g} entered: Schedule 1 line 11 = {x2:g}, over the official maximum ${T:g} for this status')
    return fails


def w_charitable_std(c):
    fails = []
    r = c.solve(B0, c.st(**{'1040__charitable_contributions_std_ded': '1000'}))
    need_solved(r, fails)
    eq(fails, 'Form 1040 line 12b (gifts 1000)', val(r, '1040.12b'), c.off)
    return fails


RRC = '1040_recovery_rebate_credit_wkst'


def _rrc_assign(c, **more):
    a = {f'{RRC}__ssn_before_due_date': 'yes', f'{RRC}__dependents_ssn_before_due_date': '1', f'{RRC}__eip_3_amount': '0'}
    a.update(more)
    return c.st(**a)


def w_rrc_echo(line):
    def f(c):
        fails = []
        r = c.solve(B0, _rrc_assign(c))
        need_solved(r, fails)
        eq(fails, f'Recovery Rebate Credit Worksheet line {line}', val(r, f'{RRC}.{line}'), c.off)
        return fails
    return f


def w_rrc_start(c):
    fails = []
    T = float(c.off)
    def cls(r):
        if not solved(r):
            return 'other'
        # line 11 is a two-place decimal, so one cent over the start leaves line 12 == line 8: observe the line 9 answer
        return 'reduced' if val(r, f'{RRC}.9_checkbox') else 'full'
    r1, r2 = gate(c, fails, B0, _rrc_assign(c), op('1040.11'), T, 0.01, cls, 'full', 'reduced', guess=T,
                  what='recovery rebate phase-out start (worksheet line 9)')
    if solved(r1) and abs((val(r1, f'{RRC}.12') or 0) - (val(r1, f'{RRC}.8') or 0)) > EPS:
        fails.append(f'AGI exactly the official ${T:,.0f}: worksheet line 12 = {val(r1, f"{RRC}.12")}, line 8 = {val(r1, f"{RRC}.8")} (no reduction is due)')
    return fails


def w_rrc_end(c):
    fails = []
    T = float(c.off)
    r0, a0 = c.tune(B0, _rrc_assign(c), op('1040.11'), T - 1000, guess=T - 1000)
    eq(fails, f'worksheet line 10 at AGI {T - 1000:g}', val(r0, f'{RRC}.10'), 1000)
    def cls(r):
        if not solved(r):
            return 'other'
        return 'no-credit' if val(r, f'{RRC}.10_checkbox') else 'credit-figured'
    r1, r2 = gate(c, fails, B0, _rrc_assign(c), op('1040.11'), T, 0.01, cls, 'credit-figured', 'no-credit', guess=T,
                  what='recovery rebate phase-out end (worksheet line 10)')
    if solved(r2) and (val(r2, '1040.30') or 0) > EPS:
        fails.append(f'AGI over the official ${T:,.0f}: Form 1040 line 30 = {val(r2, "1040.30")}')
    return fails


def w_rrc_divisor(c):
    """line 11 = line 10 / divisor is kept as a two-place decimal, so the divisor is observable only through
    roundings: probes just under / over the .985 and .505 rounding edges resolve it to about 0.1%"""
    fails = []
    end = float(A.value(c.year, 'rrc_phaseout_end', c.status))
    d = float(c.off)
    for frac, exp in ((0.5, 0.5), (0.984, 0.98), (0.986, 0.99), (0.504, 0.5), (0.506, 0.51)):
        agi = round(end - d * frac, 2)
        r, a = c.tune(B0, _rrc_assign(c), op('1040.11'), agi, guess=agi)
        need_solved(r, fails)
        eq(fails, f'worksheet line 11 at AGI {agi:g} (line 10 = {frac} of the official divisor {d:g})', val(r, f'{RRC}.11'), exp)
    return fails


def w_penalty_floor(c):
    fails = []
    names = ('27a', '28', '29', '30') if c.year == 2021 else ('27', '28', '29')
    T = float(c.off)
    for x, exp in ((T - 0.01, 0.0), (T, 77.0)):
        vv = {'24': 5000.0, '37': x}
        vv.update({n: 0.0 for n in names})
        out = eval_line(c, '1040', '38', iv={'need_schedule_3_part_ii': False, 'tax_penalty': 77.0}, vv=vv)
        if out != ('value', exp):
            fails.append(f'Form 1040 line 38 with line 37 = {x:.2f} (official floor ${T:g}): {out}, expected {exp}')
    return fails


def w_penalty_pct(c):
    fails = []
    names = ('27a', '28', '29', '30') if c.year == 2021 else ('27', '28', '29')
    p = float(c.off)
    for tax, exp in ((2000 / p, 0.0), (2000 / p - 1, 77.0)):
        vv = {'24': tax, '37': 2000.0}
        vv.update({n: 0.0 for n in names})
        out = eval_line(c, '1040', '38', iv={'need_schedule_3_part_ii': False, 'tax_penalty': 77.0}, vv=vv)
        if out != ('value', exp):
            fails.append(f'Form 1040 line 38 with line 37 = 2000 and tax shown {tax:g} (official {p:.0%}): {out}, expected {exp}')
    return fails


# --- North Carolina
def _nc(c, **more):
    a = {'nc_d-400__try_itemizing': 'no'}
    a.update(more)
    return c.solve(BNC, c.st(**a))


def nc_aborts(c, r):
    """every N.C. return of a surviving spouse aborts (D-400 `year_spouse_died` yields an int for a text line):
    unrelated to the amounts, so their line definitions are evaluated alone"""
    if r.exc is not None and 'year_spouse_died' in r.exc[1]:
        c.notes.append('N.C. return aborts on year_spouse_died; line definitions evaluated alone')
        return True
    return False


def w_nc_rate(c):
    fails = []
    r = _nc(c)
    if nc_aborts(c, r):
        for l14 in (40000.0, 123456.0):
            line_eq(c, fails, f'D-400 line 15 for line 14 = {l14:g}', 'nc_d-400', '15', l14 * float(c.off),
                    iv={'partial_year_or_nonresident': False}, vv={'14': l14}, tol=0.5 + 1e-6)
        return fails
    need_solved(r, fails)
    l14 = val(r, 'nc_d-400.14')
    if not l14 or l14 < 20000:
        raise Skip(f'N.C. taxable income too small to tell rates apart ({l14})')
    eq(fails, f'D-400 line 15 for line 14 = {l14:g}', val(r, 'nc_d-400.15'), l14 * float(c.off), 0.5 + 1e-6)
    return fails


def w_nc_std(c):
    fails = []
    r = _nc(c)
    if nc_aborts(c, r):
        line_eq(c, fails, 'D-400 Schedule A standard deduction line', 'nc_d-400_sa', 'nc_standard_deduction', c.off,
                iv={'1040.standard_deduction_exceptions': False})
        return fails
    need_solved(r, fails)
    eq(fails, 'D-400 line 11 (standard deduction)', val(r, 'nc_d-400.11'), c.off)
    return fails


def w_nc_child(c):
    fails = []
    table = c.off
    for i, (bound, amt) in enumerate(table):
        nxt = table[i + 1][1] if i + 1 < len(table) else 0
        for agi, exp in ((bound, amt), (bound + 1, nxt)):
            out = eval_line(c, 'nc_d-400_child_deduction_wkst', '4', vv={'2': float(agi)})
            if out[0] != 'value' or abs(out[1] - exp) > EPS:
                fails.append(f'N.C. child deduction per child at federal AGI {agi:,}: {out}, official {exp}')
    out = eval_line(c, 'nc_d-400_child_deduction_wkst', '4', vv={'2': 0.0})
    if out != ('value', float(table[0][1])):
        fails.append(f'N.C. child deduction per child at AGI 0: {out}, official {table[0][1]}')
    # one real return
    r = _nc(c)
    if nc_aborts(c, r):
        return fails
    need_solved(r, fails)
    agi, n = val(r, 'nc_d-400.6'), val(r, 'nc_d-400.10a')
    exp = 0
    for bound, amt in table:
        if agi <= bound:
            exp = amt
            break
    eq(fails, f'D-400 line 10b ({n:g} child, AGI {agi:g})', val(r, 'nc_d-400.10b') or 0.0, exp * n)
    # real returns whose federal AGI sits some cents above a band limit: the N.C. forms work in whole dollars, so the
    # band is the one of the amount printed on D-400 line 6
    for i, (bound, amt) in enumerate(table[:-1] if len(table) > 1 else table):
        for cents in (0.40, 0.60):
            try:
                rr, _a = c.tune(BNC, c.st(**{'nc_d-400__try_itemizing': 'no'}), lambda q: val(q, '1040.11'), bound + cents)
            except Skip:
                continue
            if rr.exc is not None or not rr.verdict:
                continue
            l6, n10 = val(rr, 'nc_d-400.6'), val(rr, 'nc_d-400.10a')
            if not n10:
                continue
            e2_ = 0
            for b2, a2 in table:
                if l6 <= b2:
                    e2_ = a2
                    break
            eq(fails, f'D-400 line 10b ({n10:g} child, federal AGI {bound + cents:,.2f}, line 6 = {l6:g})', val(rr, 'nc_d-400.10b') or 0.0, e2_ * n10)
    return fails


def _nc_itemize(c, **more):
    a = {'nc_d-400__try_itemizing': 'yes', '1040__number_1098': '1', '1098:0__box_1': '15000',
         '1040_sa__state_local_real_estate_taxes': '30000', '1040_sa__charitable_cash_check': '900000',
         '1040_sa__medical_dental_expenses': '9000'}
    a.update(more)
    r = c.solve(BNC, c.st(**a))
    if not nc_aborts(c, r):
        need_solved(r, [])
    return r


def w_nc_sa(line, how):
    def f(c):
        fails = []
        r = _nc_itemize(c)
        if r.exc is not None:
            iv = {'1040_sa.state_local_real_estate_taxes': 30000.0, '1040_sa.charitable_cash_check': 900000.0,
                  '1040_sa.charitable_other_than_cash_check': 0.0}
            vv = {'7b': 61234.0, '1040.11': 61234.0}
            exp = float(c.off) if how == 'abs' else 61234.0 * float(c.off)
            line_eq(c, fails, f'D-400 Schedule A line {line}', 'nc_d-400_sa', line, exp, iv=iv, vv=vv, tol=EPS if how == 'abs' else 0.5 + 1e-6)
            return fails
        x = val(r, f'nc_d-400_sa.{line}')
        if how == 'abs':
            eq(fails, f'D-400 Schedule A line {line}', x, c.off)
            if line == '4':
                eq(fails, 'D-400 Schedule A line 5 (line 3 = %s)' % val(r, 'nc_d-400_sa.3'), val(r, 'nc_d-400_sa.5'), c.off)
        elif how == 'agi':
            agi = val(r, '1040.11')
            eq(fails, f'D-400 Schedule A line {line} for AGI {agi:g}', x, agi * float(c.off), 0.5 + 1e-6)
        return fails
    return f


def w_nc_use_table(c):
    fails = []
    lo = 0
    rate = float(A.value(c.year, 'nc_use_tax_rate', c.status))
    probes = []
    for hi, tax in c.off:
        probes += [(float(lo), tax), (hi - 1.0, tax)]
        lo = hi
    for x, exp in probes:
        out = eval_line(c, 'nc_d-400_consumer_use_tax_wkst', 'estimate', vv={'nc_d-400.14': x})
        if out[0] != 'value' or abs(out[1] - exp) > EPS:
            fails.append(f'N.C. use tax estimate at taxable income {x:,.0f}: {out}, official table {exp}')
    return fails


def w_nc_use_rate(c):
    fails = []
    top = A.NC_USE_TAX_TABLE[-1][0]
    for x in (float(top), 100000.0, 250000.0):
        out = eval_line(c, 'nc_d-400_consumer_use_tax_wkst', 'estimate', vv={'nc_d-400.14': x})
        exp = x * float(c.off)
        if out[0] != 'value' or abs(out[1] - exp) > 0.5 + 1e-6:
            fails.append(f'N.C. use tax estimate at taxable income {x:,.0f}: {out}, official {exp:.2f}')
    return fails


def w_nc_underpayment(c):
    fails = []
    T = float(c.off)
    for due, exp in ((T - 1, 0.0), (T, 55.0)):
        out = eval_line(c, 'nc_d-400', '26e', iv={'interest_on_underpayment': 55.0}, vv={'17': 5000.0, '20a': 5000.0 - due, '20b': 0.0})
        if out != ('value', exp):
            fails.append(f'D-400 line 26e with tax due {due:g} (official floor ${T:g}): {out}, expected {exp}')
    return fails


WITNESS = {
    'standard_deduction': ('echo', w_standard_deduction),
    'qdcg_zero_rate_max': ('echo', w_qdcg('6')),
    'qdcg_15_rate_max': ('echo', w_qdcg('13')),
    'capgain_rate_15': ('echo', w_capgain_15),
    'capgain_rate_20': ('line', w_capgain_20),
    'amt_exemption': ('echo', w_amt_exemption),
    'amt_phaseout_start': ('echo', w_amt_phaseout_start),
    'amt_28pct_breakpoint': ('gate+line', w_amt_breakpoint),
    'amt_rate_26': ('line', w_amt_rate_26),
    'amt_exemption_phaseout_rate': ('line', w_amt_phaseout_rate),
    'saver_credit_agi_limit': ('gate', w_saver),
    'form_1116_foreign_tax_limit': ('gate', w_form_1116),
    'ctc_per_child': ('echo', w_ctc_per_child),
    'odc_per_dependent': ('echo', w_8812('7')),
    'ctc_phaseout_start': ('echo', w_8812('9')),
    'ctc_phaseout_rate': ('line', w_ctc_rate),
    'actc_per_child': ('echo', w_actc),
    'ctc2021_under6': ('echo', w_8812('5_ws_1', 1, ctc=2, odc=0)),
    'ctc2021_6to17': ('echo', w_8812('5_ws_2', 1, ctc=2, odc=0)),
    'ctc2021_first_phaseout_start': ('echo', w_8812('5_ws_8')),
    'ctc2021_ws_line6': ('echo', w_8812('5_ws_6')),
    'ctc2021_repayment_protection_agi': ('echo', w_ctc2021_repayment('33')),
    'ctc2021_repayment_protection_per_child': ('echo', w_ctc2021_repayment('37')),
    'salt_cap': ('echo', w_salt),
    'medical_agi_floor_rate': ('echo', w_medical_rate),
    'form_8283_threshold': ('gate', w_8283),
    'mortgage_insurance_agi_limit': ('gate', w_mortgage_insurance),
    'hsa_limit_self': ('echo', w_hsa(False)),
    'hsa_limit_family': ('echo', w_hsa(True)),
    'addl_medicare_threshold': ('gate+echo', w_addl_medicare),
    'addl_medicare_withholding_threshold': ('gate', w_addl_medicare_withholding),
    'addl_medicare_rate': ('echo', w_8959_rate('addl')),
    'medicare_rate': ('echo', w_8959_rate('medicare')),
    'qbi_threshold': ('gate', w_qbi),
    'qbi_rate': ('echo', w_qbi_rate),
    'eic_agi_limit_0': ('gate', w_eic(0)),
    'eic_agi_limit_1': ('gate', w_eic(1)),
    'eic_agi_limit_2': ('gate', w_eic(2)),
    'eic_agi_limit_3': ('gate', w_eic(3)),
    'eic_investment_income_limit': ('gate', w_eic_investment),
    'sched_b_interest_threshold': ('gate', w_sched_b('int')),
    'sched_b_dividend_threshold': ('gate', w_sched_b('div')),
    'educator_expense_limit': ('gate', w_educator),
    'charitable_std_ded_max': ('echo', w_charitable_std),
    'rrc_per_person': ('echo', w_rrc_echo('7')),
    'rrc_line6': ('echo', w_rrc_echo('6')),
    'rrc_phaseout_start': ('gate', w_rrc_start),
    'rrc_phaseout_end': ('gate+echo', w_rrc_end),
    'rrc_phaseout_divisor': ('echo', w_rrc_divisor),
    'underpayment_penalty_floor': ('line', w_penalty_floor),
    'underpayment_penalty_pct': ('line', w_penalty_pct),
    'nc_tax_rate': ('echo', w_nc_rate),
    'nc_standard_deduction': ('echo', w_nc_std),
    'nc_child_deduction_table': ('line+echo', w_nc_child),
    'nc_mortgage_property_tax_cap': ('echo', w_nc_sa('4', 'abs')),
    'nc_real_estate_tax_limit': ('echo', w_nc_sa('2', 'abs')),
    'nc_medical_agi_floor_rate': ('echo', w_nc_sa('7c', 'agi')),
    'nc_charitable_agi_pct': ('echo', w_nc_sa('6', 'agi')),
    'nc_use_tax_table': ('line', w_nc_use_table),
    'nc_use_tax_rate': ('line', w_nc_use_rate),
    'nc_underpayment_floor': ('line', w_nc_underpayment),
}

SAMPLES = {(2023, 'HeadOfHousehold', 'standard_deduction'), (2022, 'MarriedFilingJointly', 'qbi_threshold'),
           (2021, 'QualifyingWidowWidower', 'eic_agi_limit_2'), (2023, 'MarriedFilingSeparately', 'amt_28pct_breakpoint'),
           (2022, 'Single', 'nc_tax_rate'), (2021, 'HeadOfHousehold', 'ctc2021_ws_line6'),
           (2023, 'QualifyingSurvivingSpouse', 'nc_child_deduction_table'), (2022, 'HeadOfHousehold', 'saver_credit_agi_limit')}

# table entries deliberately left out of the claimed set: (year or None, name) -> reason
UNCORROBORATED = {}


def _work(item):
    year, name, status, variant = item
    c = Ctx(year, name, status, variant)
    kind, fn = WITNESS[name]
    out = dict(year=year, name=name, status=status, variant=variant, kind=kind, fails=[], skip=None, nret=0, nline=0)
    try:
        out['fails'] = fn(c)
    except Skip as e:
        out['skip'] = str(e)
    out['nret'], out['nline'] = c.nret, c.nline
    return out


# ---------------------------------------------------------------------------------------------
# second leg: amounts printed in the bundled templates
def _template_dir(year):
    return os.path.join(hv.REPO, 'habutax', 'forms', f'ty{year}')


def page_text(path):
    """visible text of a template: the strings shown by Tj / TJ in every content stream, in file order"""
    from hv import pdfread
    pdf = pdfread.PDF(path)
    out = []
    for num in sorted(pdf.xref):
        try:
            o = pdf.get(num)
        except Exception:
            continue
        if not isinstance(o, pdfread.Stream) or o.dict.get('Type') in ('XRef', 'ObjStm', 'EmbeddedFile', 'Metadata'):
            continue
        try:
            data = pdf.decode(o)
        except Exception:
            continue
        if b'Tj' not in data and b'TJ' not in data:
            continue
        parts = []
        for m in re.finditer(rb'\(((?:[^()\\]|\\.)*)\)\s*Tj|\[((?:[^\]\\]|\\.)*)\]\s*TJ', data, re.S):
            if m.group(1) is not None:
                parts.append(m.group(1))
            else:
                parts.append(b''.join(re.findall(rb'\(((?:[^()\\]|\\.)*)\)', m.group(2), re.S)))
        out.append(b' '.join(parts).decode('latin-1'))
    t = '\n'.join(out)
    t = re.sub(r'\\\r?\n', '', t)
    t = re.sub(r'\\[0-7]{3}', ' ', t)
    t = re.sub(r'\\(.)', r'\1', t)
    return re.sub(r'[\s.]*\s[\s.]*', ' ', t)


def speak_text(path):
    from hv import pdfread
    tf = pdfread.template_fields(path)
    return re.sub(r'\s+', ' ', ' || '.join((i.get('speak') or '').replace('—', ' ') for i in tf.values()))


def _n(s):
    return float(s.replace(',', ''))


ALL, NONJOINT = ('S', 'MFJ', 'MFS', 'HOH', 'QSS'), ('S', 'MFS', 'HOH', 'QSS')
QS = r'Qualifying (?:widow\(er\)|surviving spouse)'
D = r'\$ ?([\d,]+)'
# (file, years, regex, [(amount name, statuses for group 1), (name, statuses for group 2) ...])
PRINTED = [
    ('f1040.pdf', A.YEARS, rf'Single or Married filing separately, {D} Married filing jointly or {QS}, {D} Head of household, {D}',
     [('standard_deduction', ('S', 'MFS')), ('standard_deduction', ('MFJ', 'QSS')), ('standard_deduction', ('HOH',))]),
    ('f1040s8.pdf', A.YEARS, rf'Married filing jointly ?{D} ?All other filing statuses ?{D}',
     [('ctc_phaseout_start', ('MFJ',)), ('ctc_phaseout_start', NONJOINT)]),
    ('f1040s8.pdf', (2022, 2023), rf'Multiply line 4 by {D}', [('ctc_per_child', ALL)]),
    ('f1040s8.pdf', A.YEARS, rf'Multiply line 6 by {D}', [('odc_per_dependent', ALL)]),
    ('f1040s8.pdf', (2022, 2023), rf'required social security number(?::| multiplied by) (?:x )?{D}', [('actc_per_child', ALL)]),
    ('f1040s8.pdf', (2021,), rf'Married filing jointly or {QS} ?{D} ?Head of household ?{D} ?All other filing statuses ?{D}',
     [('ctc2021_repayment_protection_agi', ('MFJ', 'QSS')), ('ctc2021_repayment_protection_agi', ('HOH',)),
      ('ctc2021_repayment_protection_agi', ('S', 'MFS'))]),
    ('f1040s8.pdf', (2021,), rf'Multiply line 32 by {D}', [('ctc2021_repayment_protection_per_child', ALL)]),
    ('f1040sa.pdf', A.YEARS, rf'smaller of line 5d or {D} \({D} if married filing separately\)',
     [('salt_cap', ('S', 'MFJ', 'HOH', 'QSS')), ('salt_cap', ('MFS',))]),
    ('f1040sa.pdf', A.YEARS, rf'attach Form 8283 if over {D}', [('form_8283_threshold', ALL)]),
    ('f1040sb.pdf', A.YEARS, rf'If line 4 is over {D}', [('sched_b_interest_threshold', ALL)]),
    ('f1040sb.pdf', A.YEARS, rf'If line 6 is over {D}', [('sched_b_dividend_threshold', ALL)]),
    ('f8889.pdf', A.YEARS, rf'enter {D} \({D} for family coverage\)', [('hsa_limit_self', ALL), ('hsa_limit_family', ALL)]),
    ('f8959.pdf', A.YEARS, rf'Married filing jointly,? ?{D} Married filing separately,? ?{D} Single, Head of household, or {QS},? ?{D}',
     [('addl_medicare_threshold', ('MFJ',)), ('addl_medicare_threshold', ('MFS',)), ('addl_medicare_threshold', ('S', 'HOH', 'QSS'))]),
    # the two wordings are tried on every year (a template carrying another year's sentence must not go unnoticed)
    ('f8995.pdf', A.YEARS, rf'at or below {D} \({D} if married filing separately; {D} if married filing jointly\)',
     [('qbi_threshold', ('S', 'HOH', 'QSS')), ('qbi_threshold', ('MFS',)), ('qbi_threshold', ('MFJ',))], 'optional'),
    ('f8995.pdf', A.YEARS, rf'at or below {D} \({D} if married filing jointly\)',
     [('qbi_threshold', NONJOINT), ('qbi_threshold', ('MFJ',))], 'optional'),
    ('fnc_d-400_sa.pdf', A.YEARS, rf'Single {D} Head of household {D} Qualifying widow\(er\)/Surviving Spouse {D} If your spouse does not claim itemized deductions {D}',
     [('nc_standard_deduction', ('S',)), ('nc_standard_deduction', ('HOH',)), ('nc_standard_deduction', ('QSS',)),
      ('nc_standard_deduction', ('MFS',))]),
]
PRINTED_RATES = [
    ('fnc_d-400_sa.pdf', A.YEARS, r'Multiply Line 7b by ([\d.]+)% \(([\d.]+)\)', 'nc_medical_agi_floor_rate'),
]


def status_of(year, short):
    return dict(zip(ALL, A.statuses(year)))[short]


def printed_leg(run):
    checked = {'page': 0, 'speak': 0}
    missing, speak_stale = [], []
    cache = {}
    found = {}
    for entry in PRINTED:
        fname, years, rx, groups = entry[:4]
        optional = len(entry) > 4
        for year in years:
            path = os.path.join(_template_dir(year), fname)
            if path not in cache:
                try:
                    cache[path] = (page_text(path), speak_text(path))
                except Exception as e:
                    cache[path] = None
                    run.harness_error(f'cannot read template {path}: {e}')
            if cache[path] is None:
                continue
            for src, text in zip(('page', 'speak'), cache[path]):
                ms = list(re.finditer(rx, text))
                if src == 'page':
                    found[(year, fname, groups[0][0])] = found.get((year, fname, groups[0][0]), 0) + len(ms)
                if not ms:
                    if src == 'page' and not optional:
                        missing.append(f'{year}/{fname}: {groups[0][0]} sentence not found in the visible text')
                    continue
                for m in ms:
                    for gi, (name, shorts) in enumerate(groups):
                        got = _n(m.group(gi + 1))
                        for sh in shorts:
                            stt = status_of(year, sh)
                            exp = float(A.value(year, name, stt))
                            if got == exp:
                                checked[src] += 1
                                run.outcome(('printed', src, year, stt, name))
                            elif src == 'speak':
                                speak_stale.append(f'{year}/{fname} <speak>: {name} {stt} says {got:g}, table {exp:g}')
                            else:
                                run.violation(f'C08|{year}|{name}|{stt}|printed', dict(year=year, name=name, status=stt, printed=fname),
                                              f'{fname} of {year} prints {got:g} for {name} ({stt}); the independent table has {exp:g}')
    for (year, fname, name), n in sorted(found.items()):
        if n == 0:
            missing.append(f'{year}/{fname}: {name} sentence not found in the visible text')
    missing = sorted(set(missing))
    for fname, years, rx, name in PRINTED_RATES:
        for year in years:
            path = os.path.join(_template_dir(year), fname)
            try:
                text = page_text(path)
            except Exception as e:
                run.harness_error(f'cannot read template {path}: {e}')
                continue
            m = re.search(rx, text)
            if not m:
                missing.append(f'{year}/{fname}: {name} sentence not found')
                continue
            exp = float(A.value(year, name, 'Single'))
            if abs(float(m.group(1)) / 100 - exp) < 1e-9 and abs(float(m.group(2)) - exp) < 1e-9:
                checked['page'] += 5
                for stt in A.statuses(year):
                    run.outcome(('printed', 'page', year, stt, name))
            else:
                run.violation(f'C08|{year}|{name}|*|printed', dict(year=year, name=name, status='Single', printed=fname),
                              f'{fname} of {year} prints {m.group(0)!r}; table has {exp}')
    run.count('printed_facts_page_text', checked['page'])
    run.count('printed_facts_speak_text', checked['speak'])
    run.extra['printed_sentences_not_found'] = missing
    run.extra['template_speak_disagreements'] = sorted(set(speak_stale))
    return checked


# ---------------------------------------------------------------------------------------------
# (amount, form, line, years in which the form can be requested on its own with nothing but the filing status)
SUBFORM_ECHO = [('ctc_phaseout_start', '1040_s8812', '9', (2021, 2022, 2023)), ('addl_medicare_threshold', '8959', '5', (2021, 2022))]


def _subform_value(year, form, line, status):
    import configparser
    from habutax import solver as hs, inputs as hi
    from habutax.forms import available_forms
    cp = configparser.ConfigParser()
    cp.read_string(f'[1040]\nfiling_status = {status}\n')
    s = hs.Solver(hi.InputStore(cp), available_forms[year])
    try:
        s.solve([form], field_names=[f'{form}.{line}'])
        return s._v.values.get(f'{form}.{line}', 'ABSENT')
    except Exception as e:
        return f'{type(e).__name__}: {e}'[:120]


def subform_leg(run):
    import itertools
    out, n = [], 0
    for name, form, line, usable in SUBFORM_ECHO:
        usable = [y for y in usable if name in A.AMOUNTS[y]]
        for order in itertools.permutations(usable):
            for y in order:
                for st in A.statuses(y):
                    v = _subform_value(y, form, line, st)
                    n += 1
                    exp = A.value(y, name, st)
                    if not isinstance(v, float) or abs(v - exp) > EPS:
                        out.append((f'C08|{y}|{name}|{st}|subform', f'{name} for {st} {y}: {form} requested alone (after solves of {[o for o in order if o != y]} in the same process) '
                                    f'gives line {line} = {v!r}, official {exp}', dict(year=y, name=name, status=st, engine='subform')))
        run.extra.setdefault('subform_leg', {})[name] = dict(form=form, line=line, years=usable)
    run.count('subform_solves', n)
    run.evaluations += n
    seen, uniq = set(), []
    for k, w, c in out:
        if k not in seen:
            seen.add(k)
            uniq.append((k, w, c))
    return uniq


def work_items(tier):
    variants = (0, 1) if tier == 'thorough' else (0,)
    items = []
    for year, status, name in A.triples():
        if (year, name) in UNCORROBORATED or (None, name) in UNCORROBORATED:
            continue
        for v in variants:
            items.append((year, name, status, v))
    return items


def run(tier):
    run = runner.Run(PID, tier, 'exploration',
                     'exhaustive over every (tax year, filing status, amount name) triple of the independent table '
                     'hv.statutory_amounts (3 years x 5 statuses x the amounts the shipped forms use): one witness per triple on the '
                     'real code (echo line of a solved return / outcome flip of two returns tuned one cent or dollar around the official '
                     'threshold / single line definition), thorough repeats every witness on a second base; plus the amounts printed in '
                     'the bundled templates against the same table; distinct = triples checked + printed facts')
    bad = A.self_check()
    for b in bad:
        run.harness_error(f'statutory_amounts self check: {b}')
    missing_w = sorted({n for y in A.YEARS for n in A.AMOUNTS[y]} - set(WITNESS))
    unwitnessed = {}
    for n in missing_w:
        for y in A.YEARS:
            if n in A.AMOUNTS[y]:
                for stt in A.statuses(y):
                    unwitnessed[f'{y}|{n}|{stt}'] = 'no witness written for this amount'
    items = [it for it in work_items(tier) if it[1] in WITNESS]
    res = runner.pmap(_work, items, chunksize=2)
    claimed, per_year, kinds = set(), {}, {}
    for o in res:
        year, name, status = o['year'], o['name'], o['status']
        run.evaluations += o['nret'] + o['nline']
        run.count('returns_solved_for_witnesses', o['nret'])
        run.count('line_definitions_evaluated', o['nline'])
        t = (year, status, name)
        if o['skip'] is not None:
            if o['variant'] == 0:
                unwitnessed[f'{year}|{name}|{status}'] = o['skip']
            else:
                run.extra.setdefault('second_base_unwitnessed', {})[f'{year}|{name}|{status}'] = o['skip']
            continue
        if o['variant'] == 0:
            claimed.add(t)
            per_year[year] = per_year.get(year, 0) + 1
            kinds[o['kind']] = kinds.get(o['kind'], 0) + 1
            run.outcome(t)
        run.count(f'witness_{o["kind"]}')
        if o['fails']:
            run.violation(f'C08|{year}|{name}|{status}', dict(year=year, name=name, status=status, variant=o['variant']),
                          f'{name} for {status} {year}, official {_show(A.value(year, name, status))}: ' + ' ;; '.join(o['fails'][:4]))
        elif (year, status, name) in SAMPLES:
            run.sample(dict(year=year, status=status, name=name, kind=o['kind'], official=_show(A.value(year, name, status)),
                            returns_solved=o['nret'], line_definitions_evaluated=o['nline']), cap=8)
    for (y, n), why in UNCORROBORATED.items():
        for yy in (A.YEARS if y is None else (y,)):
            if n in A.AMOUNTS[yy]:
                for stt in A.statuses(yy):
                    run.extra.setdefault('uncorroborated', {})[f'{yy}|{n}|{stt}'] = why
    # sub-form leg: a schedule requested on its own (as the project's own tests do), the years interleaved in one
    # process in every order: the status-indexed line must be the requested year's amount whatever was solved before
    for key, what, case in subform_leg(run):
        run.violation(key, case, what)
    printed = printed_leg(run)
    total = len(list(A.triples()))
    run.exhaustive = True
    run.count('triples_in_table', total)
    run.count('triples_checked', len(claimed))
    run.count('triples_unwitnessed', len(unwitnessed))
    run.extra['triples_per_year'] = {str(y): per_year.get(y, 0) for y in A.YEARS}
    run.extra['witness_kinds'] = kinds
    run.extra['unwitnessed'] = unwitnessed
    run.extra.setdefault('uncorroborated', {})
    run.extra['amount_names'] = {str(y): sorted(A.AMOUNTS[y]) for y in A.YEARS}
    run.assumptions = [
        'the official values are those of hv/statutory_amounts.py, written from Rev. Proc. 2020-45 / 2021-45 / 2022-38, the notices and '
        'form instructions cited there; only the amounts printed in the bundled templates could be corroborated offline '
        f'({printed["page"]} status-facts from visible text), the rest rests on the citations (the bundled N.C. D-401 copies are encrypted '
        'and the IRS instruction PDFs use subset fonts)',
        'gate witnesses test the flip of the outcome as a function of the operand the form compares (e.g. Form 1040 line 11 for the 2022/2023 '
        'Form 8995 threshold, line 11 - line 12c in 2021); whether that is the operand the instructions name is not part of C08',
        'a surviving spouse is not a joint return: amounts the law gives "for a joint return" only (EIC limits, Form 1116 election, '
        'QBI threshold, CTC phase-out) use the non-joint value for that status',
    ]
    return run.finish()


def _show(v):
    if isinstance(v, tuple):
        return 'table ' + ','.join(f'{a}:{b}' for a, b in v[:3]) + ',...'
    try:
        return f'{float(v):g}'
    except Exception:
        return str(v)


def replay(case):
    if case.get('engine') == 'subform':
        class _R(object):
            extra = {}
            evaluations = 0

            def count(self, *a):
                pass
        bad = [w for k, w, c in subform_leg(_R()) if c['year'] == case['year'] and c['name'] == case['name'] and c['status'] == case['status']]
        return (not bad), (bad[0] if bad else 'sub-form solves give the official amount in every order of years')
    return _replay(case)


def _replay(case):
    o = _work((case['year'], case['name'], case['status'], case.get('variant', 0)))
    if case.get('printed'):
        class _R(object):
            def __init__(self):
                self.v, self.extra = [], {}
            def violation(self, k, c, w):
                self.v.append((k, w))
            def outcome(self, t): pass
            def count(self, *a): pass
            def harness_error(self, m): pass
        rr = _R()
        printed_leg(rr)
        hit = [w for k, w in rr.v if k == f'C08|{case["year"]}|{case["name"]}|{case["status"]}|printed']
        if hit:
            return False, hit[0]
        return True, 'printed amount agrees with the table'
    if o['skip'] is not None:
        return True, f'witness cannot be built any more: {o["skip"]}'
    if o['fails']:
        return False, ' ;; '.join(o['fails'][:4])
    return True, f'{case["name"]} {case["status"]} {case["year"]}: witness ({o["kind"]}) agrees with the official value'
