"""C09: declaring an unsupported tax situation never yields a solved return."""
import json
import os

import hv
from hv import runner, e3, e3mon, world
from hv.props import _common

PID = 'C09'


def _gate_work(e):
    base = e3.base_by_name(e['base'], e['year'])
    # (B) the declaration supplied in the input file, everything else answered as in the base return
    r0, asked = e3.run_return(e['year'], base, {e['input']: e['value']})
    from habutax.forms import available_forms
    rf = world.run_solve(available_forms[e['year']], base.requested, r0.final_inputs, answer=None)
    out = []
    for tag, r in (('prompt', r0), ('file', rf)):
        if r.exc is None and r.verdict:
            out.append((tag, f'{e["input"]} = {e["value"]} on {e["base"]} ({e["year"]}) solved; on the reference tree it stopped with {e["outcome"]} {e["unimplemented"] or e["message"]}'))
    if len(base.requested) > 1:
        # the command line route with several --form arguments
        import os
        from hv import cli
        with cli.workdir() as d:
            inp = os.path.join(d, 'in.ini')
            cli.write_inputs(inp, r0.final_inputs)
            res = cli.solve_cli(e['year'], base.requested, inp)
        if res['exc'] is None and 'Successfully solved!' in res['stdout']:
            out.append(('cli', f'`habutax solve` with forms {base.requested}: {e["input"]} = {e["value"]} on {e["base"]} ({e["year"]}) prints "Successfully solved!"'))
    return out, r0.outcome_class()


def run(tier):
    run = runner.Run(PID, tier, 'model_checking',
                     '(A) every return of the E3 prompt tree: a gate line (frozen (line, input) pairs derived by E4: every execution reading yes '
                     'refuses) that read yes never coexists with a solved verdict; (B) every frozen (year, base return, gate input or over-limit amount) context of hv/gates.json is '
                     're-declared (through prompt and through the input file) and must not solve; distinct = gate contexts + outcome classes')
    g = e3mon.gates()
    entries = g['entries']
    res = runner.pmap(_gate_work, entries)
    for e, (out, oc) in zip(entries, res):
        run.outcome(('gate', e['year'], e['base'], e['input'], e['value']))
        for tag, m in out:
            run.violation(f'C09|{e["year"]}|{e["input"]}={e["value"]}|{e["base"]}', dict(engine='gate', entry=e), m)
    run.count('gate_contexts', len(entries))
    run.count('distinct_gates', len(set((e['year'], e['input'], e['value']) for e in entries)))
    run.count('refusing_line_input_pairs', len(g.get('refusing', [])))
    run.evaluations += 2 * len(entries)
    run.states += len(entries)
    run.transitions += 2 * len(entries)
    run.traces += 2 * len(entries)
    # base returns that declare an unsupported situation by construction
    for year in (2021, 2022, 2023):
        for b in e3.bases_for(year):
            if b.name in e3.EXPECT_REFUSED:
                r, asked = e3.run_return(year, b, {})
                run.outcome(('refused-base', year, b.name, r.outcome_class()))
                run.evaluations += 1
                if r.exc is None and r.verdict:
                    run.violation(f'C09|{year}|{b.name}|solved', dict(engine='e3', year=year, base=b.name, assign={}),
                                  f'{b.name} ({year}) declares an unsupported situation by construction and solved')
    if entries:
        run.sample(dict(engine='gate', **{k: entries[0][k] for k in ('year', 'base', 'input', 'value', 'outcome')}))
    e3.explore_all(run, PID, tier, finding_key=lambda kind, msg, case: f'C09|{case["year"]}|{kind}')
    run.assumptions = ['hv/gates.json: frozen table of declared-unsupported contexts, generated on the repaired tree by tools/mk_gates.py and '
                       'reviewed; if habutax later implements a situation its entries must be retired']
    return run.finish()


def replay(case):
    if case.get('engine') == 'gate':
        out, oc = _gate_work(case['entry'])
        return (not out), (out[0][1] if out else f'not solved ({oc})')
    return _common.e3_replay(PID, case)
