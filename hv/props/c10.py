"""C10: every name a form definition can refer to resolves."""
import collections

import hv
from hv import runner, e4, e3
from hv.props import _common
from habutax.forms import available_forms

PID = 'C10'
BAD = ('AttributeError', 'NameError', 'KeyError', 'AssertionError', 'RecursionError', 'UnboundLocalError', 'IndexError')


def classify(out):
    """-> ('ok'|'observation'|'violation', kind, detail)"""
    if out[0] in ('value', 'not-implemented', 'absent-form'):
        return 'ok', out[0], ''
    if out[0] == 'unresolved':
        return 'violation', f'unresolved-{out[1]}', f'{out[2]} {out[3]}'
    cls, msg = out[1], out[2]
    if cls in BAD:
        if cls == 'AttributeError' and "'NoneType' object" in msg:
            return 'observation', 'blank-dereferenced', msg
        return 'violation', cls, msg
    from hv import e3mon
    if cls == 'TypeError' and e3mon.SIGNATURE_RE.search(msg):
        # a helper, threshold or form method called with arguments it does not take: the reference does not resolve
        return 'violation', 'TypeError-signature', msg
    return 'observation', cls, msg


def _work(arg):
    year, ci, inst, li, max_dev, cap = arg
    C = available_forms[year][ci]
    sites = set()
    r = e4.explore_line(year, C, inst, li, max_dev, cap, sites=sites)
    res = []
    for out, (script, names) in r['outcomes'].items():
        st, kind, detail = classify(out)
        res.append((st, kind, detail, script, names[:12]))
    return r['line'], r['executions'], r['capped'], r['full'], res, sites


def run(tier):
    run = runner.Run(PID, tier, 'model_checking',
                     'E4: every line definition of every form (year x class x allowed instance) executed under an environment that '
                     'answers each i[..]/v[..] with every member of the alphabet of the declared type of the thing referred to '
                     '(stateless DFS over answer vectors: full product when it fits the cap, else deviation-bounded); each executed '
                     'reference is resolved against the year catalogue.  Plus a dynamic net over the E3 returns.  '
                     'states = distinct (line, outcome) classes, transitions = executions')
    max_dev, cap = (2, 3000) if tier == 'quick' else (3, 15000)
    run.extra['e4_bound'] = dict(max_deviations=max_dev, cap_per_definition=cap)
    items = [(y, ci, inst, li, max_dev, cap) for (y, ci, inst, li) in e4.work_items()]
    items = runner.rotate(items, run.seed)
    res = runner.pmap(_work, items)
    inv = {y: e4.site_inventory(y) for y in available_forms}
    reached = {y: set() for y in available_forms}
    nexec = ncapped = nfull = 0
    obs = collections.Counter()
    for it, (line, n, capped, full, outs, sites) in zip(items, res):
        year = it[0]
        nexec += n
        ncapped += 1 if capped else 0
        nfull += 1 if full else 0
        reached[year] |= sites
        for st, kind, detail, script, names in outs:
            run.outcome((year, line, kind, detail[:40]))
            if st == 'observation':
                obs[kind] += 1
            elif st == 'violation':
                name = detail.split(' ')[0] if kind.startswith('unresolved') else detail[:70]
                run.violation(f'C10|{year}|{line}|{kind}|{name}',
                              dict(engine='e4', year=year, class_index=it[1], instance=it[2], line_index=it[3], script=script),
                              f'{year} {line}: {kind}: {detail} (environment answers, in order read: {names}; choices {script})')
    run.evaluations += nexec
    run.transitions += nexec
    run.states += len(run.distinct)
    run.traces += nexec
    run.count('e4.definitions', len(items))
    run.count('e4.executions', nexec)
    run.count('e4.definitions_fully_enumerated', nfull)
    run.count('e4.definitions_capped', ncapped)
    for k, v in obs.items():
        run.count('e4.observation:' + k, v)
    cov = {}
    for y in inv:
        un = sorted(inv[y] - reached[y])
        cov[y] = dict(sites=len(inv[y]), reached=len(inv[y] & reached[y]),
                      unreached=[f'{s[0].split("/")[-1]}:{s[1]}' for s in un][:40])
    run.extra['reference_site_coverage'] = cov
    run.sample(dict(engine='e4', year=2023, line='1040.13', note='reads 1099-div:n.box_5 for n < number_1099-div, threshold form_8995_required'))
    # dynamic net over real returns
    e3.explore_all(run, PID, tier)
    return run.finish()


def replay(case):
    if case.get('engine') == 'e3':
        return _common.e3_replay(PID, case)
    C = available_forms[case['year']][case['class_index']]
    ctx = e4.make_ctx(case['year'], C, case['instance'], case['line_index'])
    out, trace, lname = e4.run_once(ctx, case['script'])
    st, kind, detail = classify(out)
    return (st != 'violation'), f'{lname}: {out}'
