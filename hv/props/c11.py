"""C11: lines only ever see validated, correctly typed, finite input values.

Exhaustive over all strings <= L over a 26-symbol alphabet chosen to hit the
parsers' shortcuts, x 9 input kinds, through three routes (spec, INI file via
InputStore, prompt loop + store), plus near-miss edits of every enumeration
member of the catalogue, plus a line-level route on a real Solver."""
import builtins
import configparser
import itertools
import math
import re
from fractions import Fraction

import hv
from hv import runner, world
import habutax
from habutax import inputs as hi, enum as henum, solver as hsolver
from habutax.form import Form, Jurisdiction
from habutax.fields import StringField
from habutax.forms import available_forms

PID = 'C11'
ALPHABET = [' ', '\t', '0', '1', '9', '+', '-', '.', ',', '_', 'e', 'E', 'x', 'n', 'a', 'i', 'f', 't', 'r', 'u',
            'y', 's', 'o', '١', '１', '%']
SPECIALS = ['nan', 'NaN', 'inf', '-inf', 'Infinity', '-Infinity', '1e999', '-1e999', '1e308', '1e309', 'true', 'false',
            'yes', 'no', 'on', 'off', 'True', 'YES', ' y ', 'n\t', 'tru', 'yess', '0x10', '1_000', '1__0', '_1', '1_',
            '١٢٣', '１２', '1,000', '1.5e3', '.5', '5.', '+.5e-1', '--1', '+-1', '1 2', '', ' ', '123-45-6789',
            '123456789', '12345678', '1234567890', '123-45-678a', '１２３４５６７８９', '011000015', '991000015', '01100001',
            'abc-123', 'a' * 17, 'a' * 18, 'a b', 'Single', 'single', 'SINGLE', ' Single ', 'Singl', 'Singlee', 'Sin gle',
            'taxpayer', 'spouse', 'both', 'nan%', '1%', '%(x)s', '1e5', '1E5', '0e0', '-0', '-0.0', '00012', '1' * 400,
            # words a prompt loop might take for commands, and names every enumeration class answers to
            'q', 'Q', 'quit', 'Quit', ' q ', 'exit', 'abort', 'cancel', 'skip', 'none', 'None', 'null', '?', 'help', 'h',
            '__doc__', '__module__', '__members__', '__class__', '__name__', 'mro', 'name', 'value', '_member_map_',
            '_value2member_map_', '_member_names_', 'Red.name', 'Color.Red', 'r', 'g']

TRUE_WORDS = {'true', 'yes', 'y', '1', 'on'}
FALSE_WORDS = {'false', 'no', 'n', '0', 'off'}
PLAIN_NUM = re.compile(r'^[+-]?(\d+(\.\d*)?|\.\d+)$', re.ASCII)
PLAIN_INT = re.compile(r'^[+-]?\d+$', re.ASCII)


class _F(object):
    def name(self):
        return 't'


def specs():
    color = henum.make('Color', {'Red': 'r', 'Green': 'g', 'Blue': 'b', 'on': 'x', 'e1': 'y'})
    out = {
        'string': hi.StringInput('x'),
        'bool': hi.BooleanInput('x'),
        'int': hi.IntegerInput('x'),
        'float': hi.FloatInput('x'),
        'enum': hi.EnumInput('x', color),
        'enum_empty': hi.EnumInput('x', color, allow_empty=True),
        'regex_routing': hi.RegexInput('x', '^(0[1-9]|1[0-2]|2[1-9]|3[0-2])[0-9]{7}$'),
        'regex_account': hi.RegexInput('x', '^[0-9A-Za-z\\-]{1,17}$'),
        'ssn': hi.SSNInput('x'),
    }
    other = henum.make('Other', {'Red': 'r', 'Amber': 'a', 'x': 'x'})
    out['enum_other'] = hi.EnumInput('x', other)
    ys = {
        'string_y': hi.StringInput('y'), 'ssn_y': hi.SSNInput('y'), 'enum_y': hi.EnumInput('y', color),
        'enum_empty_y': hi.EnumInput('y', color, allow_empty=True), 'enum_other_y': hi.EnumInput('y', other),
        'regex_routing_y': hi.RegexInput('y', '^(0[1-9]|1[0-2]|2[1-9]|3[0-2])[0-9]{7}$'),
        'regex_account_y': hi.RegexInput('y', '^[0-9A-Za-z\\-]{1,17}$'),
    }
    out.update(ys)
    for s in out.values():
        s.__form_init__(_F())
    return out


MAIN_KINDS = ['string', 'bool', 'int', 'float', 'enum', 'enum_empty', 'regex_routing', 'regex_account', 'ssn']


def expected(kind, spec, s):
    """independent verdict: ('valid', value or ANY) | ('invalid',) | ('any',)
    'any' = the oracle does not pin acceptance, only type/finiteness if accepted"""
    t = s.strip()
    if kind == 'string':
        return ('valid', t)
    if kind == 'bool':
        w = t.lower()
        if w in TRUE_WORDS:
            return ('valid', True)
        if w in FALSE_WORDS:
            return ('valid', False)
        return ('invalid',)
    if kind == 'int':
        if t == '':
            return ('valid', 0)
        if PLAIN_INT.match(t):
            return ('valid', int(Fraction(t)))
        if t.isascii() and not re.match(r'^[+-]?[0-9_]+$', t):
            return ('invalid',)
        return ('any',)
    if kind == 'float':
        if t == '':
            return ('valid', 0.0)
        if PLAIN_NUM.match(t):
            fr = Fraction(t)
            if abs(fr) >= Fraction(2) ** 1024:     # not representable as a finite float
                return ('invalid',)
            return ('valid', fr)
        if re.match(r'^[+-]?(nan|inf|infinity)$', t.lower()):
            return ('invalid',)
        if t.isascii() and re.search(r'[^0-9eE+\-._]', t):
            return ('invalid',)
        return ('any',)
    if kind in ('enum', 'enum_empty'):
        if t == '':
            return ('valid', None) if kind == 'enum_empty' else ('invalid',)
        if t in spec.enum.__members__:
            return ('valid', spec.enum.__members__[t])
        return ('invalid',)
    if kind == 'ssn':
        d = t.replace('-', '')
        if len(d) == 9 and all(c in '0123456789' for c in d):
            return ('valid', d)
        return ('invalid',)
    if kind == 'regex_routing':
        ok = len(t) == 9 and all(c in '0123456789' for c in t) and (1 <= int(t[:2]) <= 12 or 21 <= int(t[:2]) <= 32)
        return ('valid', t) if ok else ('invalid',)
    if kind == 'regex_account':
        ok = 1 <= len(t) <= 17 and all(c.isascii() and (c.isalnum() or c == '-') for c in t)
        return ('valid', t) if ok else ('invalid',)
    raise ValueError(kind)


TYPES = {'string': str, 'bool': bool, 'int': int, 'float': float, 'regex_routing': str, 'regex_account': str, 'ssn': str}


def check_value(kind, spec, s, v, exp):
    """v was produced for string s: type / finiteness / equality with the oracle"""
    if kind in ('enum', 'enum_empty'):
        if not (v is None or type(v) is spec.enum):
            return f'value {v!r} is not a member of the enumeration'
    elif type(v) is not TYPES[kind]:
        return f'value {v!r} has type {type(v).__name__}, declared {TYPES[kind].__name__}'
    if kind == 'float' and not math.isfinite(v):
        return f'non-finite value {v!r} accepted'
    if exp[0] == 'valid':
        e = exp[1]
        if isinstance(e, Fraction):
            if v != float(e):
                return f'value {v!r} differs from the independent parse {float(e)!r}'
        elif v != e or (e is not None and type(v) is not type(e) and kind not in ('enum', 'enum_empty')):
            return f'value {v!r} differs from the expected {e!r}'
    return None


def spec_route(kind, spec, s):
    """returns (error message or None, accepted bool)"""
    exp = expected(kind, spec, s)
    try:
        ok = spec.valid(s)
    except Exception as e:
        return f'valid() raised {type(e).__name__}: {e}', False
    if ok is not True and ok is not False:
        return f'valid() returned {ok!r}', False
    val = exc = None
    try:
        val = spec.value(s)
    except ValueError as e:
        exc = e
    except KeyError as e:
        exc = e
    except Exception as e:
        return f'value() raised {type(e).__name__}: {e}', ok
    if ok and exc is not None:
        return f'valid() is true but value() raises {type(exc).__name__}', ok
    if exp[0] == 'invalid' and ok:
        return f'accepted although it does not denote a value of this input', ok
    if exp[0] == 'valid' and not ok:
        return f'rejected although it is a plain representation of {exp[1]!r}', ok
    if ok:
        m = check_value(kind, spec, s, val, exp)
        if m:
            return m, ok
    return None, ok


_EMPTY_CP = configparser.ConfigParser()
_OTHERKEY_CP = configparser.ConfigParser()
_OTHERKEY_CP.read_string('[t]\ny = 1\n')


def store_route(kind, spec, s, accepted_by_spec):
    """the string as the value of a key in a real INI file, read by InputStore"""
    cp = configparser.ConfigParser()
    try:
        cp.read_string('[t]\nx = ' + s + '\n')
    except configparser.Error:
        return None, 'ini-rejects'
    st = hi.InputStore(cp, {'t.x': spec})
    # an absent key is missing, never a default (no file section / section without the key)
    for other in (_EMPTY_CP, _OTHERKEY_CP):
        try:
            v = hi.InputStore(other, {'t.x': spec})['t.x']
            return f'absent key yields {v!r}', 'x'
        except hi.MissingInput:
            pass
        except Exception as e:
            return f'absent key raises {type(e).__name__}', 'x'
    try:
        raw = cp.get('t', 'x')
    except configparser.Error:
        try:
            v = st['t.x']
            return f'INI layer rejects the text but the store yields {v!r}', 'x'
        except hi.MissingInput:
            return 'supplied text (rejected by the INI layer) is reported as a missing input', 'x'
        except Exception:
            return None, 'ini-rejects'
    try:
        v = st['t.x']
    except hi.InvalidInput:
        if spec.valid(raw) is True and expected(kind, spec, raw)[0] == 'valid':
            return f'supplied valid text {raw!r} reported invalid', 'x'
        return None, 'invalid'
    except hi.MissingInput:
        return f'supplied input reported missing', 'x'
    except Exception as e:
        return f'store raised {type(e).__name__}: {e}', 'x'
    exp = expected(kind, spec, raw)
    if exp[0] == 'invalid':
        return f'file text {raw!r} does not denote a value but the store yields {v!r}', 'x'
    m = check_value(kind, spec, raw, v, exp)
    if m:
        return m, 'x'
    return None, 'value'


PAIRS = [('regex_account', 'regex_routing'), ('enum', 'enum_empty'), ('enum', 'enum_other'), ('string', 'ssn')]


def pair_route(sp, ka, kb, s):
    """two inputs of one store holding the same text, read in both orders: each read is judged against that
    input's own validator (a store that remembers validation per text or per class is exposed)"""
    for first, second in ((ka, kb), (kb, ka)):
        cp = configparser.ConfigParser()
        try:
            cp.read_string('[t]\nx = ' + s + '\ny = ' + s + '\n')
            raw = cp.get('t', 'x')
        except configparser.Error:
            return None
        a, b = sp[first], sp[second + '_y'] if (second + '_y') in sp else sp[second]
        st = hi.InputStore(cp, {'t.x': sp[first], 't.y': sp[second + '_y']})
        for key, kind in (('t.x', first), ('t.y', second)):
            spec = sp[kind] if key == 't.x' else sp[kind + '_y']
            exp = expected(kind if kind != 'enum_other' else 'enum', spec, raw)
            try:
                v = st[key]
                got = 'value'
            except hi.InvalidInput:
                got = 'invalid'
            except hi.MissingInput:
                return f'{kind} input reported missing although supplied (read order {first},{second})'
            except Exception as e:
                return f'{kind} input: store raised {type(e).__name__} (read order {first},{second})'
            if exp[0] == 'invalid' and got == 'value':
                return f'{kind} input yields {v!r} for text its validator rejects, after a {first} input with the same text was read'
            if exp[0] == 'valid' and got == 'invalid':
                return f'{kind} input rejects valid text after a {first} input with the same text was read'
            if got == 'value':
                m = check_value(kind if kind != 'enum_other' else 'enum', spec, raw, v, exp)
                if m:
                    return m + f' (read order {first},{second})'
    return None


def prompt_route(kind, spec, s, fallback):
    """the real prompt loop with scripted input(), then the solver's store-and-read"""
    script = [s, fallback]
    calls = []

    def fake_input(prompt=''):
        calls.append(prompt)
        return script[len(calls) - 1]
    old = builtins.input
    builtins.input = fake_input
    try:
        value, supplied = habutax.prompt_input(spec, [])
    finally:
        builtins.input = old
    if not supplied:
        return 'prompt loop refused without an interrupt'
    exp = expected(kind, spec, s)
    if len(calls) == 1:
        if value != s:
            return f'prompt returned {value!r} for the typed {s!r}'
        if exp[0] == 'invalid':
            return f'prompt loop accepted text that does not denote a value'
    else:
        if exp[0] == 'valid':
            return f'prompt loop rejected a plain representation of {exp[1]!r}'
        return None
    cp = configparser.ConfigParser()
    st = hi.InputStore(cp, {'t.x': spec})
    try:
        st['t.x'] = value
    except ValueError:
        return None   # INI layer refuses (e.g. %): loud
    try:
        v = st['t.x']
    except configparser.Error:
        return None
    except Exception as e:
        return f'after the prompt the store raises {type(e).__name__}: {e}'
    if '%' in s:
        exp = ('any',)    # the INI layer's own escape syntax; only type and finiteness are pinned
    m = check_value(kind, spec, s, v, exp)
    return m


FALLBACK = {'string': 'z', 'bool': 'no', 'int': '7', 'float': '7.5', 'enum': 'Red', 'enum_empty': 'Red',
            'regex_routing': '011000015', 'regex_account': '12345', 'ssn': '123456789'}


def _work(arg):
    mode, payload, L = arg
    sp = specs()
    errs = []
    n = 0
    acc = 0
    ini_rej = 0
    for _ in (0,):
        if mode == 'list':
            strings = payload
        else:
            pre = ''.join(payload)
            strings = [pre + ''.join(t) for k in range(L - len(payload) + 1) for t in itertools.product(ALPHABET, repeat=k)]
        for s in strings:
            for ka, kb in PAIRS:
                n += 1
                m = pair_route(sp, ka, kb, s)
                if m and len(errs) < 40:
                    errs.append((ka + '+' + kb, 'pair', s, m))
            for kind in MAIN_KINDS:
                spec = sp[kind]
                n += 1
                m, ok = spec_route(kind, spec, s)
                if m and len(errs) < 40:
                    errs.append((kind, 'spec', s, m))
                acc += 1 if ok else 0
                m, cls = store_route(kind, spec, s, ok)
                if cls == 'ini-rejects':
                    ini_rej += 1
                if m and len(errs) < 40:
                    errs.append((kind, 'file', s, m))
                m = prompt_route(kind, spec, s, FALLBACK[kind])
                if m and len(errs) < 40:
                    errs.append((kind, 'prompt', s, m))
    return errs, n, acc, ini_rej


# -- line level --------------------------------------------------------------
class _AskedForever(Exception):
    pass


def line_level(kind_spec_factory, s, route):
    """one-line form on the real Solver; returns what the definition received"""
    seen = []

    class T(Form):
        form_name = 't'
        tax_year = 1999
        description = 't'
        long_description = 't'
        jurisdiction = Jurisdiction.US
        sequence_no = 0

        def __init__(self, **kw):
            def fn(self_, i, v):
                x = i['x']
                seen.append(x)
                return 'ok'
            Form.__init__(self, T, [kind_spec_factory()], [StringField('1', fn)], [], **kw)

        def needs_filing(self, values):
            return False
    cp = configparser.ConfigParser()
    if route in ('file', 'file+prompt'):
        try:
            cp.read_string('[t]\nx = ' + s + '\n')
        except configparser.Error:
            return 'ini', seen
    st = hi.InputStore(cp)

    asked = []

    def prompt(missing, needed_by):
        asked.append(missing.name())
        if len(asked) > 6:
            raise _AskedForever()
        if route == 'file+prompt':
            return (None, False)      # the user declines; the input was in the file anyway
        if not missing.valid(s):
            return (None, False)
        return (s, True)
    sol = hsolver.Solver(st, [T], prompt=prompt if route in ('prompt', 'file+prompt') else None)
    try:
        ok = sol.solve(['t'])
        if route == 'file+prompt' and asked:
            return 'asked-although-supplied', seen
        if route == 'file+prompt' and not ok and sol.unmet_input_dependencies():
            return 'reported-missing-although-supplied', seen
    except hi.InvalidInput:
        return 'invalid', seen
    except _AskedForever:
        return 'asked-forever', seen
    except (configparser.Error, ValueError):
        return 'ini', seen
    return ('solved' if ok else 'failed'), seen


FACTORIES = {
    'string': lambda: hi.StringInput('x'), 'bool': lambda: hi.BooleanInput('x'), 'int': lambda: hi.IntegerInput('x'),
    'float': lambda: hi.FloatInput('x'), 'ssn': lambda: hi.SSNInput('x'),
    'regex_account': lambda: hi.RegexInput('x', '^[0-9A-Za-z\\-]{1,17}$'),
    'enum': lambda: hi.EnumInput('x', henum.taxpayer_spouse_or_both),
    'enum_empty': lambda: hi.EnumInput('x', henum.taxpayer_spouse_or_both, allow_empty=True),
}


def _line_work(strings):
    errs = []
    n = 0
    for s in strings:
        for kind, fac in FACTORIES.items():
            spec = fac()
            spec.__form_init__(_F())
            for route in ('file', 'prompt', 'file+prompt'):
                n += 1
                status, seen = line_level(fac, s, route)
                if status == 'asked-forever':
                    errs.append((kind, 'line/' + route, s, 'the same input is asked for again and again although it is answered each time'))
                if status in ('asked-although-supplied', 'reported-missing-although-supplied'):
                    errs.append((kind, 'line/' + route, s, f'text supplied in the file: {status} (an interactive solve must report invalid text as invalid, not ask again)'))
                for x in seen:
                    if kind in ('enum', 'enum_empty'):
                        bad = not (x is None or type(x) is spec.enum)
                    else:
                        bad = type(x) is not TYPES[kind]
                    if bad:
                        errs.append((kind, 'line/' + route, s, f'definition received {x!r} of type {type(x).__name__}'))
                    if kind == 'float' and not bad and not math.isfinite(x):
                        errs.append((kind, 'line/' + route, s, f'definition received non-finite {x!r}'))
                if status == 'solved' and not seen:
                    errs.append((kind, 'line/' + route, s, 'solved without the definition seeing a value'))
                if seen and route == 'prompt' and not spec.valid(s):
                    errs.append((kind, 'line/' + route, s, 'definition saw a value for rejected text'))
    return errs, n


def catalogue_enum_edits():
    """every member name of every enumeration used by the catalogue under every single edit"""
    enums = {}
    for year, fl in available_forms.items():
        for C in fl:
            inst = getattr(C, 'valid_instances', [None])[0]
            f = C(instance=inst)
            for i in f.inputs():
                if isinstance(i, hi.EnumInput):
                    enums[(id(i.enum), i.allow_empty)] = i
    out = []
    for (eid, ae), spec in enums.items():
        for name in spec.enum.__members__:
            edits = {name, name.lower(), name.upper(), name.swapcase(), name[:-1], name + 'x', name[1:], ' ' + name + ' ',
                     name[:1] + ' ' + name[1:], name + '\t', '', ' ', name + name}
            for e in edits:
                out.append((spec, e))
    return out


def run(tier):
    run = runner.Run(PID, tier, 'exploration',
                     'all strings of length <= L over a 26-symbol alphabet (plus a list of specials) x 9 input kinds x 3 routes '
                     '(spec, INI file via InputStore, prompt loop + store); near-miss edits of every catalogued enumeration '
                     'member; line-level route on the real Solver; distinct = accepted (string, kind) pairs')
    L = 4 if tier == 'quick' else 5
    run.extra['length_bound'] = L
    run.extra['alphabet'] = ALPHABET
    plen = 1 if L <= 3 else 2
    short = [''.join(p) for k in range(plen) for p in itertools.product(ALPHABET, repeat=k)]
    items = [('list', short, L)] + [('prefix', p, L) for p in itertools.product(ALPHABET, repeat=plen)]
    items = runner.rotate(items, run.seed)
    res = runner.pmap(_work, items, chunksize=1)
    tot = acc = ini = 0
    for errs, n, a, ir in res:
        tot += n
        acc += a
        ini += ir
        for kind, route, s, m in errs:
            run.violation(f'C11|{kind}|{route}|{_cls(m)}', dict(engine='strings', kind=kind, route=route, string=s), f'{kind} input, {route} route, text {s!r}: {m}')
    # specials (serial)
    sp = specs()
    for s in SPECIALS:
        for ka, kb in PAIRS:
            m = pair_route(sp, ka, kb, s)
            if m:
                run.violation(f'C11|{ka}+{kb}|pair|{_cls(m)}', dict(engine='strings', kind=ka + '+' + kb, route='pair', string=s), f'text {s!r}: {m}')
        for kind in MAIN_KINDS:
            spec = sp[kind]
            tot += 1
            for route, m in (('spec', spec_route(kind, spec, s)[0]), ('file', store_route(kind, spec, s, None)[0]),
                             ('prompt', prompt_route(kind, spec, s, FALLBACK[kind]))):
                if m:
                    run.violation(f'C11|{kind}|{route}|{_cls(m)}', dict(engine='strings', kind=kind, route=route, string=s),
                                  f'{kind} input, {route} route, text {s!r}: {m}')
    run.count('strings_x_kinds', tot)
    run.count('accepted_pairs', acc)
    run.count('ini_layer_rejects', ini)
    # enumeration near misses
    ne = 0
    for spec, e in catalogue_enum_edits():
        ne += 1
        t = e.strip()
        want = (t in spec.enum.__members__) or (t == '' and spec.allow_empty)
        got = spec.valid(e)
        if got != want:
            run.violation(f'C11|enum-edit|{"accepted" if got else "rejected"}', dict(engine='enum', text=e),
                          f'enumeration input: text {e!r} valid()={got}, expected {want}')
        elif got:
            v = spec.value(e)
            if not ((v is None and t == '') or (type(v) is spec.enum and v.name == t)):
                run.violation('C11|enum-edit|value', dict(engine='enum', text=e), f'{e!r} -> {v!r}')
    run.count('enum_edits', ne)
    # line level: all strings <= 2 + specials
    strs = [''] + [''.join(p) for k in (1, 2) for p in itertools.product(ALPHABET, repeat=k)] + SPECIALS
    chunks = [strs[i:i + 40] for i in range(0, len(strs), 40)]
    nl = 0
    for errs, n in runner.pmap(_line_work, chunks, chunksize=1):
        nl += n
        for kind, route, s, m in errs:
            run.violation(f'C11|{kind}|{route}|{_cls(m)}', dict(engine='line', kind=kind, route=route, string=s),
                          f'{kind} input, {route}, text {s!r}: {m}')
    run.count('line_level_solves', nl)
    run.evaluations = tot * 3 + ne + nl
    run.distinct_n = acc
    run.exhaustive = True
    run.sample(dict(kind='float', route='file', string='1e5', verdict='accepted: scientific notation denotes a finite number'))
    run.sample(dict(kind='bool', route='prompt', string=' y ', verdict='accepted -> True'))
    run.sample(dict(kind='int', route='spec', string='1_0', verdict='oracle does not pin acceptance; if accepted must be int'))
    run.assumptions = ['independent numeral/boolean/enum/ssn/regex recognisers in c11.expected()',
                       'strings outside the alphabet and longer than the bound are not covered']
    return run.finish()


def _cls(m):
    return re.sub(r"[0-9'\"].*", '', m)[:60].strip()


def replay(case):
    sp = specs()
    if case.get('engine') == 'strings':
        kind, s = case['kind'], case['string']
        if case['route'] == 'pair':
            ka, kb = kind.split('+')
            m = pair_route(sp, ka, kb, s)
            return (m is None), (m or 'passes')
        spec = sp[kind]
        m = {'spec': lambda: spec_route(kind, spec, s)[0], 'file': lambda: store_route(kind, spec, s, None)[0],
             'prompt': lambda: prompt_route(kind, spec, s, FALLBACK[kind])}[case['route']]()
        return (m is None), (m or 'passes')
    if case.get('engine') == 'line':
        errs, n = _line_work([case['string']])
        errs = [e for e in errs if e[0] == case['kind']]
        return (not errs), (errs[0][3] if errs else 'passes')
    return True, 'enum case: re-run the check'
