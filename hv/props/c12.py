"""C12: stored line values have the declared type, rounding and blank convention."""
import decimal
import enum as pyenum
import fractions
import itertools

import hv
from hv import runner, world, e3
from hv.props import _common
from habutax import fields as hf, inputs as hi, enum as henum, solver as hsolver, form as hform
from habutax.form import Form, InputForm, Jurisdiction
from habutax.forms import available_forms

PID = 'C12'


class MyInt(int):
    pass


class MyFloat(float):
    pass


class MyStr(str):
    pass


class IE(pyenum.IntEnum):
    A = 1


COLOR = henum.make('Color', {'Red': 'r', 'Green': 'g'})
OTHER = henum.make('Other', {'Red': 'r', 'X': 'x'})

VALUES = [None, '', '  ', '\n', '\t \n', '\xa0', 'x', ' x ', 'a\nb', 'r', 'g', 'Red', 'Color.Red', True, False, 0, 1, 3, -1, 10 ** 18, 0.0, -0.0, 3.0, 0.005,
          0.015, 2.675, 1234.565, -0.004, -2.5, 0.125, 1e22, 1e-9, 123456789.987654321, MyInt(4), MyFloat(2.5), MyStr('s'),
          MyStr(' '), IE.A, COLOR.Red, COLOR.Green, OTHER.Red, (1, 2), [1], {'a': 1}, fractions.Fraction(1, 3),
          decimal.Decimal('1.10'), 1 + 0j, b'x', object]
PLACES = [0, 2, 5]

decimal.getcontext().prec = 80


def field_kinds():
    ks = [('str', lambda n, fn: hf.StringField(n, fn), str, ''),
          ('bool', lambda n, fn: hf.BooleanField(n, fn), bool, False),
          ('int', lambda n, fn: hf.IntegerField(n, fn), int, 0),
          ('enum', lambda n, fn: hf.EnumField(n, COLOR, fn), COLOR, None)]
    for p in PLACES:
        ks.append((f'float{p}', lambda n, fn, p=p: hf.FloatField(n, fn, places=p), float, 0.0))
    ks.append(('float-default', lambda n, fn: hf.FloatField(n, fn), float, 0.0))
    return ks


def expected(kind, typ, empty, x):
    """('store', value) | ('typeerror',)"""
    if x is None or (isinstance(x, str) and x.strip() == ''):
        return ('store', empty)
    if type(x) is not typ:
        return ('typeerror',)
    if typ is float:
        places = 2 if kind == 'float-default' else int(kind[5:])
        q = decimal.Decimal(1).scaleb(-places)
        d = decimal.Decimal(x).quantize(q, rounding=decimal.ROUND_HALF_EVEN)
        return ('store', float(d))
    return ('store', x)


def one_case(kind, mk, typ, empty, x):
    """returns list of error strings"""
    errs = []

    class T(Form):
        form_name = 'tt'
        tax_year = 1999
        description = 't'
        long_description = 't'
        jurisdiction = Jurisdiction.US
        sequence_no = 0

        def __init__(self, **kw):
            Form.__init__(self, T, [], [mk('7', lambda s, i, v: x), hf.StringField('8', lambda s, i, v: repr(v['7']))], [], **kw)

        def needs_filing(self, values):
            return False
    exp = expected(kind, typ, empty, x)
    # direct call
    f = T(instance=None)
    fld = f.fields()[0]
    try:
        got = ('store', fld.value({}, {}))
    except TypeError as e:
        got = ('typeerror', str(e))
    except Exception as e:
        got = ('other', f'{type(e).__name__}: {e}')
    if exp[0] == 'typeerror':
        if got[0] != 'typeerror':
            errs.append(f'value {x!r} ({type(x).__name__}) on a {kind} line: expected TypeError naming the line, got {got}')
        elif 'tt.7' not in got[1]:
            errs.append(f'TypeError does not name the line tt.7: {got[1]!r}')
    else:
        if got[0] != 'store':
            errs.append(f'value {x!r} on a {kind} line: expected {exp[1]!r} stored, got {got}')
        else:
            v = got[1]
            same = (v == exp[1] and type(v) is type(exp[1])) or (v is None and exp[1] is None)
            if same and typ is float and str(v) != str(exp[1]):
                same = (v == 0.0 and exp[1] == 0.0)    # -0.0 vs 0.0 both print as zero amounts
            if not same:
                errs.append(f'value {x!r} on a {kind} line: stored {v!r} ({type(v).__name__}), expected {exp[1]!r}')
    # through the solver: nothing stored on rejection, readers see the stored value
    import configparser
    s = hsolver.Solver(hi.InputStore(configparser.ConfigParser()), [T])
    try:
        ok = s.solve(['tt'])
        sol = world.config_to_dict(s.solution())
        if exp[0] == 'typeerror':
            errs.append(f'solver accepted {x!r} on a {kind} line: solution {sol}')
        else:
            stored = s._v.values.get('tt.7', 'ABSENT')
            if not (stored == exp[1] and type(stored) is type(exp[1])) and not (stored is None and exp[1] is None):
                errs.append(f'solver stored {stored!r} for {x!r} on a {kind} line, expected {exp[1]!r}')
            if sol.get('tt', {}).get('8') != repr(stored):
                errs.append(f'a reading line saw {sol.get("tt", {}).get("8")} but the store holds {stored!r}')
    except TypeError as e:
        if exp[0] != 'typeerror':
            errs.append(f'solver raised TypeError for acceptable {x!r} on a {kind} line: {e}')
        elif 'tt.7' in s._v.values:
            errs.append(f'rejected value was stored anyway')
    except Exception as e:
        errs.append(f'solver raised {type(e).__name__}: {e} for {x!r} on a {kind} line')
    return errs


def tie_sweep():
    """money lines at exact binary ties: n + k/8 (ties at 2 places), n + 1/2 (ties at 0 places), n + k/16 (3 places),
    n + k/64 (5 places), n = 0..4999, both signs -> [(kind, x, message)], number of calls"""
    errs, n = [], 0
    plan = [(0, [fractions.Fraction(1, 2)]), (2, [fractions.Fraction(k, 8) for k in (1, 3, 5, 7)]), (None, [fractions.Fraction(k, 8) for k in (1, 3, 5, 7)]),
            (3, [fractions.Fraction(k, 16) for k in (1, 3, 5, 7, 9, 11, 13, 15)]), (5, [fractions.Fraction(k, 64) for k in (1, 21, 43, 63)])]
    for places, fracs in plan:
        kind = 'float-default' if places is None else f'float{places}'
        box = {}
        fld = hf.FloatField('7', lambda s, i, v: box['x']) if places is None else hf.FloatField('7', lambda s, i, v: box['x'], places=places)

        class _Form(object):
            def name(self):
                return 'tt'
        fld.__form_init__(_Form())
        q = decimal.Decimal(1).scaleb(-(2 if places is None else places))
        for whole in range(5000):
            for fr in fracs:
                for sign in (1, -1):
                    x = sign * float(whole + fr)
                    box['x'] = x
                    n += 1
                    try:
                        got = fld.value({}, {})
                    except Exception as e:
                        errs.append((kind, x, f'{x!r} on a {kind} line raised {type(e).__name__}: {e}'))
                        continue
                    exp = float(decimal.Decimal(x).quantize(q, rounding=decimal.ROUND_HALF_EVEN))
                    if type(got) is not float or got != exp:
                        errs.append((kind, x, f'{x!r} on a {kind} line is stored as {got!r}, expected {exp!r} (round to {q} places, ties to even)'))
    return errs, n


def mirror_types():
    """every input of every input-only form is mirrored by a line of the matching type"""
    errs, n = [], 0
    want = {hi.StringInput: hf.StringField, hi.SSNInput: hf.StringField, hi.BooleanInput: hf.BooleanField,
            hi.IntegerInput: hf.IntegerField, hi.FloatInput: hf.FloatField, hi.EnumInput: hf.EnumField}
    for year, fl in available_forms.items():
        for C in fl:
            if not issubclass(C, InputForm):
                continue
            f = C(instance='0')
            byname = {x.base_name(): x for x in f.fields()}
            for i in f.inputs():
                n += 1
                fld = byname.get(i.base_name())
                if fld is None:
                    errs.append((year, C.form_name, i.base_name(), 'no mirror line'))
                elif type(fld) is not want.get(type(i)):
                    errs.append((year, C.form_name, i.base_name(), f'{type(i).__name__} mirrored by {type(fld).__name__}'))
                elif isinstance(i, hi.EnumInput) and fld.enum() is not i.enum:
                    errs.append((year, C.form_name, i.base_name(), 'mirror line uses another enumeration'))
    return errs, n


def run(tier):
    run = runner.Run(PID, tier, 'model_checking',
                     'every field class x decimal places {0,2,5,default} x a 49-member alphabet of Python values, directly and '
                     'through the real Solver; every value stored / read in every E3 return (prompt tree, d<=1 quick, d<=2 thorough); '
                     'mirror-line types of all input-only forms; distinct = (kind,value) cases + E3 outcome classes')
    n = 0
    for kind, mk, typ, empty in field_kinds():
        for x in VALUES:
            n += 1
            run.outcome(('alpha', kind, repr(x)))
            for m in one_case(kind, mk, typ, empty, x):
                run.violation(f'C12|alphabet|{kind}|{type(x).__name__}|{m[:40]}', dict(engine='alphabet', kind=kind, value=repr(x)), m)
    run.count('alphabet_cases', n)
    run.evaluations += 2 * n
    run.states += n
    run.transitions += n
    run.traces += 2 * n
    terrs, nt = tie_sweep()
    run.count('tie_sweep_calls', nt)
    run.evaluations += nt
    seen_t = set()
    for kind, x, m in terrs:
        k = f'C12|ties|{kind}|{"neg" if x < 0 else "pos"}'
        if k not in seen_t:
            seen_t.add(k)
            run.violation(k, dict(engine='ties', kind=kind, value=x), m + f' ({sum(1 for e in terrs if e[0] == kind)} such amounts on {kind} lines)')
    errs, nm = mirror_types()
    run.count('mirror_lines', nm)
    run.evaluations += nm
    for year, form, name, m in errs:
        run.violation(f'C12|mirror|{year}|{form}|{name}', dict(engine='mirror', year=year, form=form, input=name), m)
    run.sample(dict(engine='alphabet', kind='float2', value='2.675', expected='2.67 (binary 2.67499999...)'))
    e3.explore_all(run, PID, tier)
    return run.finish()


def replay(case):
    if case.get('engine') == 'e3':
        return _common.e3_replay(PID, case)
    if case.get('engine') == 'alphabet':
        for kind, mk, typ, empty in field_kinds():
            if kind == case['kind']:
                for x in VALUES:
                    if repr(x) == case['value']:
                        errs = one_case(kind, mk, typ, empty, x)
                        return (not errs), (errs[0] if errs else 'passes')
    if case.get('engine') == 'ties':
        terrs, nt = tie_sweep()
        terrs = [e for e in terrs if e[0] == case['kind']]
        return (not terrs), (terrs[0][2] if terrs else f'{nt} tie amounts are rounded to even')
    errs, n = mirror_types()
    return (not errs), (str(errs[:1]) if errs else 'passes')
