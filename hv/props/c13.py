import hv
from hv import runner, gen
from hv.props import _common

PID = 'C13'


def run(tier):
    run = runner.Run(PID, tier, 'model_checking',
                     'every generated form program of the tier bound x every input environment x every relevant rank '
                     'permutation, executed on the real Solver; distinct = outcome classes observed')
    gen.explore(run, PID, tier)
    return run.finish()


def replay(case):
    r = _common.gen_replay(PID)(case)
    return r
