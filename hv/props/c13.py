"""C13: prompting is demand-exact; written-back answers make the run repeatable."""
import os
import re

import hv
from hv import runner, gen, e3, e3mon, cli
from hv.props import _common
from habutax import form as hform
from habutax.forms import available_forms

PID = 'C13'
NAME_RE = re.compile(r'----\[ (\S+) \]----')
QUOTE_RE = re.compile(r"^ \* (?:Instance '([^']*)' of )?(.*), line '([^']*)'$", re.M)


def _hist_work(arg):
    """solve -> write back -> solve through the real CLI, from an empty or half-filled file"""
    year, bname, assign, start = arg
    base = e3.base_by_name(bname, year)
    r0, asked0 = e3.run_return(year, base, assign)
    answers = {n: a for n, a, alts in asked0}
    errs = []
    # (form description, instance, line base name) of every line that read an input while it was absent, taken from the
    # attempt log of the SAME session (the CLI run uses instrumented subclasses of the year's forms)
    descs = {C.form_name: f'{C.description}: {C.long_description}' for C in available_forms[year]}
    log = []

    def readers_of(n):
        out = set()
        for a in log:
            for kind, name, st_, val in a.reads:
                if kind == 'i' and name == n and st_ == 'MissingInput':
                    sec, base_name = a.line.split('.')
                    fn, inst = hform.name_and_instance(sec)
                    out.add((descs[fn], inst, base_name))
        return out
    from hv.props.c20 import _Specs
    specs = _Specs(year)
    with cli.workdir() as d:
        path = os.path.join(d, 'in.ini')
        before = {}
        if start == 'half':
            before = {n: a for (n, a, alts) in asked0[1::2]}
        elif start == 'all':
            before = dict(answers)
        cli.write_inputs(path, before)
        asked1 = []

        def script(prompt, idx):
            m = NAME_RE.search(prompt)
            if not m:
                return cli.Interrupt(EOFError())
            n = m.group(1)
            asked1.append(n)
            # the lines quoted in the prompt text must be lines that read this input while it was absent
            for q in QUOTE_RE.findall(prompt):
                inst, desc, line = q
                if (desc, inst or None, line) not in readers_of(n):
                    errs.append(('quoted-line-wrong', f'prompt for {n} quotes {("instance " + inst + " of ") if inst else ""}{desc!r} line {line!r}, which never read it while absent'))
            if len(asked1) > 3 * len(answers) + 50:
                return cli.Interrupt(EOFError())
            if n in assign:
                return assign[n]
            return base.answer(specs.get(n))
        sol1 = os.path.join(d, 's1.ini')
        import habutax
        from hv import world
        saved_forms = available_forms[year]
        habutax.forms.available_forms[year] = world.instrumented(saved_forms, log)
        try:
            res1 = cli.solve_cli(year, base.requested, path, script=script, prompt_missing=True, writeback=True, solution=sol1)
        finally:
            habutax.forms.available_forms[year] = saved_forms
        for n in asked1:
            if n in before:
                errs.append(('asked-supplied', f'{n} was asked for although the input file supplies it (start={start})'))
        if len(set(asked1)) != len(asked1):
            dup = sorted(set(x for x in asked1 if asked1.count(x) > 1))
            errs.append(('asked-twice', f'{dup[:3]} asked more than once'))
        if res1['exc'] is not None:
            return errs, 'first-run-' + res1['exc'][0]
        asked2 = []

        def script2(prompt, idx):
            m = NAME_RE.search(prompt)
            if m:
                asked2.append(m.group(1))
                n = m.group(1)
                return assign[n] if n in assign else base.answer(specs.get(n))
            return cli.Interrupt(EOFError())
        sol2 = os.path.join(d, 's2.ini')
        res2 = cli.solve_cli(year, base.requested, path, script=script2, prompt_missing=True, writeback=True, solution=sol2)
        if asked2:
            errs.append(('second-run-asks', f'second run on the written-back file asked for {asked2[:4]}'))
        if res2['exc'] is not None:
            errs.append(('second-run-raised', str(res2['exc'])))
        else:
            import configparser
            d = []
            for pth in (sol1, sol2):
                cp = configparser.ConfigParser(interpolation=None)
                with open(pth) as fh:
                    cp.read_file(fh)
                d.append({sec: dict(cp[sec]) for sec in cp.sections()})
            if d[0] != d[1]:
                diff = []
                for sec in sorted(set(d[0]) | set(d[1])):
                    x, y = d[0].get(sec, {}), d[1].get(sec, {})
                    diff += [f'{sec}.{k}: {x.get(k)!r} vs {y.get(k)!r}' for k in sorted(set(x) | set(y)) if x.get(k) != y.get(k)]
                errs.append(('second-run-differs', f'solution differs: {diff[:3]}'))
            ok1 = 'Successfully solved!' in res1['stdout']
            ok2 = 'Successfully solved!' in res2['stdout']
            if ok1 != ok2:
                errs.append(('second-run-verdict', f'first run {"solved" if ok1 else "failed"}, second {"solved" if ok2 else "failed"}'))
    return errs, 'ok'


def run(tier):
    run = runner.Run(PID, tier, 'model_checking',
                     'every generated form program of the tier bound x every input environment x every relevant rank permutation '
                     '(E2a) and every return within d deviations of the base returns (E3): prompt arguments against the attempt/read '
                     'log; solve -> write back -> solve histories in memory (E2a) and through the real CLI with real files from '
                     '{empty, half, all} inputs (base returns and d<=1 children); distinct = outcome classes per engine/base')
    gen.explore(run, PID, tier)
    e3.explore_all(run, PID, tier)
    items = []
    for year in (2021, 2022, 2023):
        for base in e3.bases_for(year):
            kids = [{}]
            if tier == 'thorough' or base.name in ('B0-single-wage', 'B4-schedule1', 'B6-nc'):
                r, asked = e3.run_return(year, base, {})
                for n, a, alts in asked:
                    for alt in alts:
                        # children that add a form instance, change a count/flag, or type adversarial text
                        if n.split('.')[1].startswith('number_') or alt in (e3.ADV_TEXT, e3.ADV_TEXT2, e3.ADV_TEXT3, e3.ADV_TEXT4) or alt == 'yes':
                            kids.append({n: alt})
            for a in kids:
                for start in ('empty', 'half', 'all'):
                    items.append((year, base.name, a, start))
    nh = 0
    for it, (errs, st) in zip(items, runner.pmap(_hist_work, items)):
        nh += 1
        run.outcome(('hist', it[0], it[1], it[3], st))
        for kind, m in errs:
            run.violation(f'C13|cli-history|{it[0]}|{kind}|{m[:60]}', dict(engine='hist', year=it[0], base=it[1], assign=it[2], start=it[3]), m)
    run.count('cli_histories', nh)
    run.evaluations += 2 * nh
    run.states += nh
    run.transitions += 2 * nh
    run.traces += 2 * nh
    return run.finish()


def replay(case):
    if case.get('engine') == 'hist':
        errs, st = _hist_work((case['year'], case['base'], case['assign'], case['start']))
        return (not errs), (str(errs[:1]) if errs else 'passes')
    if case.get('engine') == 'e3':
        return _common.e3_replay(PID, case)
    return _common.gen_replay(PID)(case)
