"""C14: a written solution reads back to exactly the values that were solved."""
import configparser
import io
import itertools
import os

import hv
from hv import runner, world, e3, cli
import habutax
from habutax import fields as hf, inputs as hi, enum as henum, values as hvalues, pdf_filler
from habutax.form import Form, Jurisdiction
from habutax.forms import available_forms

PID = 'C14'
import tempfile
_TMP = tempfile.mkdtemp(prefix='hvc14_')
import atexit, shutil
atexit.register(lambda: shutil.rmtree(_TMP, ignore_errors=True))
COLOR = henum.make('Color', {'Red': 'r', 'Green': 'g', 'Blue': 'b'})
TEXT_ALPHABET = ['a', 'B', ' ', '\n', '\t', '#', ';', '=', ':', '[', ']', '%']
FLOATS = [0.0, -0.0, 0.005, -0.005, 0.01, 1e-9, 2.675, 1234.565, 1e15 + 0.3, 1e22, -12.3, 123456.78, 0.1 + 0.2, 99999999.99]
_NOFN = lambda s, i, v: None
INTS = [0, -1, 1, 7, 10 ** 18, -10 ** 18, 2 ** 53 + 1, -(2 ** 53) - 1, 12345678901234567891, 99999999999999999]


def make_form(kinds):
    """kinds: list of (line name, field factory)"""
    class T(Form):
        form_name = 'tt'
        tax_year = 1999
        description = 't'
        long_description = 't'
        jurisdiction = Jurisdiction.US
        sequence_no = 0

        def __init__(self, **kw):
            Form.__init__(self, T, [], [mk(n) for n, mk in kinds], [], **kw)

        def needs_filing(self, values):
            return False
    return T


def roundtrip(T, values):
    """values: line name -> typed value.  Real path: ValueStore.to_config -> ConfigParser.write -> read_file ->
    PDFFiller._read_form_fields.  Returns ('ok', dict) | ('unwritable', msg) | ('unreadable', msg)"""
    f = T(instance=None)
    fmap = {x.name(): x for x in f.fields()}
    vs = hvalues.ValueStore()
    for n, v in values.items():
        vs[f'tt.{n}'] = v
    try:
        cfg = vs.to_config(fmap)
        buf = io.StringIO()
        cfg.write(buf)
    except (ValueError, TypeError, configparser.Error) as e:
        return ('unwritable', f'{type(e).__name__}: {e}')
    text = buf.getvalue() + '[habutax]\ntax_year = 1999\n'
    # read it the way `habutax fill-pdfs` does: the real fill_pdfs() code parses the file; only the PDFFiller it
    # constructs is intercepted so that our generated form class is used and pdftk is not run
    captured = {}

    class Spy(object):
        def __init__(self, solution, forms, out, flatten=True):
            captured['solution'] = solution

        def fill(self):
            pass
    path = os.path.join(_TMP, f'sol_{os.getpid()}.ini')
    with open(path, 'w') as fh:
        fh.write(text)
    real = pdf_filler.PDFFiller
    saved_forms = habutax.forms.available_forms.get(1999)
    habutax.forms.available_forms[1999] = [T]
    pdf_filler.PDFFiller = Spy
    try:
        import argparse
        habutax.fill_pdfs(argparse.Namespace(solution=path, output='/dev/null', flatten=True))
    except Exception as e:
        return ('unreadable', f'{type(e).__name__}: {e}')
    finally:
        pdf_filler.PDFFiller = real
        if saved_forms is None:
            habutax.forms.available_forms.pop(1999, None)
    try:
        back = captured['solution']
        p = pdf_filler.PDFFiller(back, [T], '/dev/null')
        for sec in back.sections():
            p._add_form(sec)
    except Exception as e:
        return ('unreadable', f'{type(e).__name__}: {e}')
    if set(p._values.values) != set(f'tt.{n}' for n in values):
        return ('extra-lines', f'read-back holds {sorted(p._values.values)} for a solution with lines {sorted(values)}')
    return ('ok', {k.split('.', 1)[1]: v for k, v in p._values.values.items()})


def same(kind, a, b):
    if kind == 'str':
        norm = lambda s: '\n'.join(l.strip() for l in s.strip().split('\n'))
        return type(b) is str and norm(a) == norm(b)
    if kind == 'enum':
        # some forms build their enumeration inside __init__, so every form instance has its own
        # class object: compare by member name and enumeration name
        if a is None or b is None:
            return a is b
        return a.name == b.name and type(a).__name__ == type(b).__name__ and list(type(a).__members__) == list(type(b).__members__)
    if type(a) is not type(b):
        return False
    if kind.startswith('float'):
        return a == b and (str(a) == str(b) or a == 0.0)
    return a == b


def typed_cases():
    """(kind, factory, values)"""
    out = [('bool', lambda n: hf.BooleanField(n, _NOFN), [True, False]),
           ('int', lambda n: hf.IntegerField(n, _NOFN), INTS),
           ('enum', lambda n: hf.EnumField(n, COLOR, _NOFN), list(COLOR) + [None])]
    for p in (0, 2, 5):
        out.append((f'float{p}', (lambda n, p=p: hf.FloatField(n, _NOFN, places=p)), sorted(set(round(x, p) for x in FLOATS), key=repr)))
    return out


def catalogue_enums():
    seen = {}
    for year, fl in available_forms.items():
        for C in fl:
            inst = getattr(C, 'valid_instances', [None])[0]
            f = C(instance=inst)
            for x in f.fields():
                if isinstance(x, hf.EnumField):
                    seen[id(x.enum())] = x.enum()
    return list(seen.values())


def _text_work(arg):
    prefix, L = arg
    T = make_form([('s', lambda n: hf.StringField(n, _NOFN))])
    out = []
    n = 0
    cls = {'ok': 0, 'unwritable': 0, 'mismatch': 0}
    strings = [prefix + ''.join(t) for k in range(L - len(prefix) + 1) for t in itertools.product(TEXT_ALPHABET, repeat=k)]
    for s in strings:
        if s.strip() == '':
            continue   # blank text is stored as the empty value (C12), never as blank text
        n += 1
        st, res = roundtrip(T, {'s': s})
        if st == 'unwritable':
            cls['unwritable'] += 1
            continue
        if st != 'ok' or not same('str', s, res.get('s')):
            cls['mismatch'] += 1
            if len(out) < 30:
                out.append((s, st, repr(res)[:200]))
        else:
            cls['ok'] += 1
    return out, n, cls


def classify_text(s):
    """finding key component for a text mismatch"""
    lines = s.split('\n')
    inner = [l.strip() for l in lines[1:]]
    if any(l.startswith('#') or l.startswith(';') for l in inner):
        return 'continuation-line-starting-with-comment-char-lost'
    if '%' in s:
        return 'percent'
    return 'other'


def _cli_work(arg):
    """solve through the real CLI into a solution file, fill-pdfs with the stand-in pdftk and compare the
    values PDFFiller loaded with the solver's typed values"""
    year, bname, assign = arg
    base = e3.base_by_name(bname, year)
    r, asked = e3.run_return(year, base, assign, keep_solver=True)
    errs = []
    if r.exc is not None:
        return errs, r.outcome_class(), 0
    typed = dict(r.solver._v.values)
    with cli.workdir() as d:
        inp = os.path.join(d, 'in.ini')
        sol = os.path.join(d, 'solution.ini')
        cli.write_inputs(inp, r.final_inputs)
        res = cli.solve_cli(year, base.requested, inp, solution=sol)
        if res['exc'] is not None:
            errs.append(('cli-solve-raised', f'{res["exc"]}'))
            return errs, r.outcome_class(), 0
        back = configparser.ConfigParser()
        with open(sol) as f:
            back.read_file(f)
        if back.get('habutax', 'tax_year', fallback=None) != str(year):
            errs.append(('tax-year', f'solution carries tax_year={back.get("habutax", "tax_year", fallback=None)!r}, solved for {year}'))
        # the filler must interpret it with that year's forms
        captured = {}
        orig_init = pdf_filler.PDFFiller.__init__

        def spy(self, *a, **kw):
            orig_init(self, *a, **kw)
            captured['p'] = self
        pdf_filler.PDFFiller.__init__ = spy
        try:
            fr = cli.fill_cli(sol, os.path.join(d, 'out.pdf'))
        finally:
            pdf_filler.PDFFiller.__init__ = orig_init
        p = captured.get('p')
        if fr['exc'] is not None and fr['exc'][0] not in ('PDFValueTooLong', 'PDFInvalidChoiceValue') and r.verdict:
            errs.append(('fill-raised', f'{fr["exc"]}'))
        if p is not None:
            loaded = p._values.values
            for line, v in typed.items():
                if line not in loaded:
                    if fr['exc'] is None:
                        errs.append(('line-lost', f'{line} solved as {v!r} is missing after read-back'))
                    continue
                w = loaded[line]
                fld = r.solver._field_map[line]
                kind = 'str' if isinstance(fld, hf.StringField) else 'enum' if isinstance(fld, hf.EnumField) else \
                    'float' if isinstance(fld, hf.FloatField) else 'x'
                if not same(kind, v, w):
                    errs.append(('value-differs', f'{line}: solved {v!r}, read back {w!r}'))
            # reading is not consuming: a second filler over the same parsed solution (say, a flattened and an editable
            # copy from one parse) loads the same values
            try:
                p2 = pdf_filler.PDFFiller(p._solution, habutax.forms.available_forms[year], os.path.join(d, 'out2.pdf'))
                for sec in p._solution:
                    if sec != 'DEFAULT':
                        p2._add_form(sec)
                again = p2._values.values
                if fr['exc'] is None and (set(again) != set(loaded) or any(repr(loaded[k]) != repr(again[k]) for k in loaded if k in again)):
                    errs.append(('second-read-differs', f'a second read of the same parsed solution loads {len(again)} lines, the first loaded {len(loaded)}'))
            except Exception as e:
                if fr['exc'] is None:
                    errs.append(('second-read-differs', f'a second read of the same parsed solution raises {type(e).__name__}: {e}'))
            extra = set(loaded) - set(typed)
            if extra:
                errs.append(('line-invented', f'read-back holds lines the solution does not have: {sorted(extra)[:4]}'))
            if sorted(f.name() for f in p.forms) != sorted(r.solution):
                errs.append(('forms-differ', f'filler loaded forms {sorted(f.name() for f in p.forms)[:6]}.. for a solution with sections {sorted(r.solution)[:6]}..'))
            for form in p.forms:
                if form._tax_year != year:
                    errs.append(('wrong-year-forms', f'form {form.name()} of tax year {form._tax_year} used for a {year} solution'))
            ydir = os.path.join(hv.REPO, 'habutax', 'forms', f'ty{year}')
            for cmd in fr['cmds']:
                if 'fill_form' in cmd and os.path.dirname(os.path.abspath(cmd[0])) != ydir:
                    errs.append(('wrong-year-template', f'template {cmd[0]} handed to pdftk for a {year} solution'))
    return errs, r.outcome_class(), len(typed)


def run(tier):
    run = runner.Run(PID, tier, 'exploration',
                     'per line type a value alphabet (floats x places {0,2,5}, ints, booleans, every member of every catalogued '
                     'enumeration + empty, all strings <= L over a 12-symbol text alphabet) through ValueStore.to_config -> '
                     'ConfigParser.write -> read_file -> PDFFiller._read_form_fields; plus every solved base return and its d<=1 '
                     'children through the real CLI (solve --solution, fill-pdfs with a stand-in pdftk); distinct = values round-tripped')
    n = 0
    # typed alphabets
    for kind, mk, vals in typed_cases():
        T = make_form([('x', mk)])
        for v in vals:
            n += 1
            run.outcome((kind, repr(v)))
            st, res = roundtrip(T, {'x': v})
            if st != 'ok' or not same(kind, v, res.get('x')):
                run.violation(f'C14|{kind}|{v!r}', dict(engine='typed', kind=kind, value=repr(v)), f'{kind} value {v!r}: {st} {res!r}')
    for en in catalogue_enums():
        T = make_form([('x', lambda nme, en=en: hf.EnumField(nme, en, _NOFN))])
        for v in list(en) + [None]:
            n += 1
            run.outcome(('enum', id(en), repr(v)))
            st, res = roundtrip(T, {'x': v})
            if st != 'ok' or res.get('x') is not v:
                run.violation(f'C14|enum|{en.__name__}|{v}', dict(engine='enum', enum=en.__name__, value=str(v)), f'enumeration member {v!r}: {st} {res!r}')
    run.count('typed_values', n)
    # text
    L = 4 if tier == 'quick' else 5
    run.extra['text_length_bound'] = L
    items = [('', 0)] + [(a + b, L) for a in TEXT_ALPHABET for b in TEXT_ALPHABET] + [(a, 1) for a in TEXT_ALPHABET]
    nt = 0
    tot = {'ok': 0, 'unwritable': 0, 'mismatch': 0}
    for out, k, cls in runner.pmap(_text_work, runner.rotate(items, run.seed), chunksize=1):
        nt += k
        for c, v in cls.items():
            tot[c] += v
        for s, st, res in out:
            run.violation(f'C14|str|{classify_text(s)}', dict(engine='text', text=s), f'text {s!r} reads back as {res} ({st})')
    # text that is not in a normalised / ASCII form must come back as it was written
    T_ = make_form([('s', lambda n: hf.StringField(n, _NOFN))])
    for s_ in ['Jose\u0301', 'Jos\u00e9', '\u212b', '\u2126 K\u212a', '\u1112\u1161\u11ab', 'na\u00efve caf\u00e9', 'Stra\u00dfe',
               '\uff21\uff22', 'a\u00a0b', 'x\u200by', '\u00e5\u030a']:
        nt += 1
        st, res = roundtrip(T_, {'s': s_})
        if st == 'unwritable':
            tot['unwritable'] += 1
        elif st != 'ok' or res.get('s') != s_.strip():
            tot['mismatch'] += 1
            run.violation('C14|str|unicode-altered', dict(engine='text', text=s_), f'text {s_!r} reads back as {res!r} ({st})')
        else:
            tot['ok'] += 1
    run.count('text_values', nt)
    run.count('text_ok', tot['ok'])
    run.count('text_unwritable_loud', tot['unwritable'])
    run.count('text_mismatch', tot['mismatch'])
    run.distinct_n = len(run.distinct) + tot['ok']
    # real returns through the CLI
    items = []
    for year in (2021, 2022, 2023):
        for base in e3.bases_for(year):
            items.append((year, base.name, {}))
            if tier == 'thorough' or base.name in ('B0-single-wage', 'B7-dense', 'B6-nc'):
                r, asked = e3.run_return(year, base, {})
                for nme, a, alts in asked:
                    for alt in alts:
                        items.append((year, base.name, {nme: alt}))
    nr = nv = 0
    for (year, bname, assign), (errs, oc, nvals) in zip(items, runner.pmap(_cli_work, items)):
        nr += 1
        nv += nvals
        run.outcome(('cli', year, bname, oc))
        for kind, m in errs:
            run.violation(f'C14|cli|{year}|{kind}|{m[:60]}', dict(engine='cli', year=year, base=bname, assign=assign), m)
    run.count('cli_returns', nr)
    run.count('cli_values_compared', nv)
    run.evaluations = n + nt + nv
    run.exhaustive = True
    run.sample(dict(engine='text', text='a\n b', reads_back='a\nb', verdict='equal up to surrounding whitespace of each physical line'))
    run.sample(dict(engine='typed', kind='float2', value=2.67))
    run.sample(dict(engine='cli', year=2023, base='B7-dense', deviations={}))
    run.assumptions = ['text equality is up to strip() of the value and of each physical line (the INI layer re-indents continuation lines)',
                       'blank text is out of scope (stored as the empty value, C12)']
    return run.finish()


def replay(case):
    if case.get('engine') == 'text':
        T = make_form([('s', lambda n: hf.StringField(n, _NOFN))])
        st, res = roundtrip(T, {'s': case['text']})
        ok = st == 'unwritable' or (st == 'ok' and same('str', case['text'], res.get('s')))
        return ok, f'{st} {res!r}'
    if case.get('engine') == 'cli':
        errs, oc, n = _cli_work((case['year'], case['base'], case['assign']))
        return (not errs), (str(errs[:1]) if errs else f'passes ({oc})')
    return True, 're-run the check'
