"""C15: a solved return balances and has no impossible negative amounts."""
import hv
from hv import runner, e3
from hv.props import _common

PID = 'C15'


def key(kind, msg, case):
    return f'C15|{case["year"]}|{kind}'


def run(tier):
    run = runner.Run(PID, tier, 'model_checking',
                     'every solved return within d deviations (quick 1 on 5 bases/year, thorough 2 on all) of the base returns of '
                     '2021-2023 (non-negative alphabets): federal and NC balance identities and a transcribed list of non-negative '
                     'lines per form; distinct = outcome classes per base')
    e3.explore_all(run, PID, tier, finding_key=key)
    run.assumptions = ['list of non-negative lines e3mon.NONNEG (transcribed from the forms)']
    return run.finish()


def replay(case):
    return _common.e3_replay(PID, case)
