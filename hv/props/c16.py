"""C16: returns respond to input changes the way tax law requires."""
import hv
from hv import runner, e3
from hv.props import _common

PID = 'C16'


def key(kind, msg, case):
    return f'C16|{case["year"]}|{kind}'


def run(tier):
    run = runner.Run(PID, tier, 'model_checking',
                     'for every solved return of the E3 prompt tree (quick: d<=1 on 5 bases/year; thorough: d<=1 on all bases and d<=2 on '
                     'B0/B2): all renumberings of each multi-copy input form (<=3 copies), every wage, withholding and deductible-expense '
                     'input it read raised by each of {1, 50, 1000, 100000}; pairs in which both returns solve are compared; '
                     'states = returns, evaluations = solves')
    if tier == 'quick':
        e3.explore_all(run, PID, 'quick', finding_key=key)
    else:
        e3.explore_all(run, PID, 'quick', bases=[b.name for b in e3.BASES], finding_key=key)
        e3.explore_all(run, PID, 'thorough', bases=['B0-single-wage', 'B2-investor'], finding_key=key)
    return run.finish()


def replay(case):
    return _common.e3_replay(PID, case)
