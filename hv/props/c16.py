"""C16: returns respond to input changes the way tax law requires."""
import hv
from hv import runner, e3
from hv.props import _common

PID = 'C16'


def key(kind, msg, case):
    return f'C16|{case["year"]}|{kind}'


def run(tier):
    run = runner.Run(PID, tier, 'model_checking',
                     'for every solved return of the E3 prompt tree (quick: all base returns, d<=1 on B0 (all years) and B2/B6 (2023); thorough: '
                     'd<=1 on all bases and years, d<=2 on B0/2023): all renumberings of each multi-copy input form (<=3 copies), every wage, withholding and deductible-expense '
                     'input it read raised by each of {1, 50, 1000, 100000}; pairs in which both returns solve are compared; '
                     'states = returns, evaluations = solves')
    allb = [b.name for b in e3.BASES]
    if tier == 'quick':
        e3.explore_all(run, PID, 'quick', bases=allb, depth_quick=0, finding_key=key)
        e3.explore_all(run, PID, 'quick', bases=['B0-single-wage'], depth_quick=1, finding_key=key)
        e3.explore_all(run, PID, 'quick', bases=['B6-nc', 'B2-investor'], years=(2023,), depth_quick=1, finding_key=key)
    else:
        e3.explore_all(run, PID, 'quick', bases=allb, depth_quick=1, finding_key=key)
        e3.explore_all(run, PID, 'thorough', bases=['B0-single-wage'], years=(2023,), finding_key=key)
    return run.finish()


def replay(case):
    return _common.e3_replay(PID, case)
