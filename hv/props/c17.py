"""C17: each year's form catalogue is consistent; status look-ups are total."""
import argparse
import configparser
import contextlib
import io
import numbers
import os
import re

import hv
from hv import runner
import habutax
from habutax import enum as henum, inputs as hi, fields as hf
from habutax.form import Form, InputForm, Jurisdiction
from habutax.forms import available_forms

PID = 'C17'
NAME_OK = re.compile(r'^[a-z0-9_\-]+$')
COUNTS = {'names': 0, 'threshold_status_pairs': 0, 'templates_parsed_back': 0}


def instances(C):
    if hasattr(C, 'valid_instances'):
        return list(C.valid_instances)
    if issubclass(C, InputForm):
        # numbered copies, and the plain name (what `list-form-inputs w-2` and a reference without a number use)
        return ['0', '1', None]
    return [None]


def status_enum(year):
    return henum.filing_status_2021 if year == 2021 else henum.filing_status


def capture(fn, args):
    out = io.StringIO()
    code = None
    with contextlib.redirect_stdout(out):
        try:
            fn(args)
        except SystemExit as e:
            code = e.code
        except Exception as e:
            code = f'{type(e).__name__}: {e}'
    return out.getvalue(), code


def check_form(year, C, inst):
    """yields (kind, message)"""
    try:
        f = C(instance=inst)
    except Exception as e:
        yield ('instantiate', f'{type(e).__name__}: {e}')
        return
    if getattr(C, 'tax_year', None) != year:
        yield ('tax-year', f'declares tax_year={getattr(C, "tax_year", None)!r} in the {year} catalogue')
    moddir = os.path.basename(os.path.dirname(os.path.abspath(__import__(C.__module__, fromlist=['x']).__file__)))
    if moddir != f'ty{year}':
        yield ('module-year', f'class comes from {moddir}')
    for attr in ('form_name', 'description', 'long_description'):
        v = getattr(C, attr, None)
        if not isinstance(v, str) or not v.strip():
            yield ('metadata', f'{attr}={v!r}')
    if not isinstance(getattr(C, 'jurisdiction', None), Jurisdiction):
        yield ('metadata', f'jurisdiction={getattr(C, "jurisdiction", None)!r}')
    if '.' in C.form_name or ':' in C.form_name or C.form_name != C.form_name.lower():
        yield ('form-name', f'form name {C.form_name!r}')
    # can it need filing?
    fileable = not issubclass(C, InputForm) and (f.pdf_file() is not None or len(f.pdf_fields()) > 0)
    if True:
        class Yes(dict):
            def __getitem__(self, k):
                return 1e9

            def __contains__(self, k):
                return True
        try:
            if f.needs_filing(Yes()):
                fileable = True
        except Exception:
            fileable = fileable or not issubclass(C, InputForm)
    if fileable:
        if not isinstance(getattr(C, 'sequence_no', None), int):
            yield ('sequence-no', f'can need filing but sequence_no={getattr(C, "sequence_no", None)!r}')
        if not f.pdf_file() or not os.path.isfile(f.pdf_file()):
            yield ('template', f'can need filing but template {f.pdf_file()!r} does not exist')
        if not f.pdf_fields():
            yield ('mappings', 'can need filing but has no PDF mappings')
        elif os.path.basename(os.path.dirname(os.path.abspath(f.pdf_file()))) != f'ty{year}':
            yield ('template-year', f'template {f.pdf_file()} is not in ty{year}')
    # names
    for what, objs in (('input', f.inputs()), ('line', f.fields())):
        seen = {}
        for o in objs:
            n = o.base_name()
            COUNTS['names'] += 1
            if not NAME_OK.match(n):
                yield (f'{what}-name', f'{what} name {n!r} is not lower-case/dot-free')
            folded = n.lower()
            if folded in seen:
                yield (f'{what}-duplicate', f'{what} name {n!r} declared twice (or folds onto {seen[folded]!r})')
            seen[folded] = n
            if o.name() != f'{f.name()}.{n}':
                yield (f'{what}-fullname', f'{o.name()!r}')
    req = [x.base_name() for x in f.required_fields()]
    allf = [x.base_name() for x in f.fields()]
    if len(allf) != len(set(allf)):
        yield ('line-duplicate', 'a line is both required and optional or declared twice')
    # thresholds
    statuses = list(status_enum(year))
    for tname, t in f._thresholds.items():
        if isinstance(t, dict):
            keys = list(t.keys())
            members = []
            for k in keys:
                members += list(k) if isinstance(k, tuple) else [k]
            if all(isinstance(m, type(statuses[0])) for m in members):
                for st in statuses:
                    COUNTS['threshold_status_pairs'] += 1
                    n = sum(1 for k in keys if (st in k if isinstance(k, tuple) else st == k))
                    if n != 1:
                        yield ('threshold', f'threshold {tname!r}: {n} entries match status {st.name}')
                    try:
                        v = f.threshold(tname, st)
                        if isinstance(v, bool) or not isinstance(v, numbers.Real):
                            yield ('threshold-value', f'threshold {tname!r}[{st.name}] = {v!r}')
                        own = [val for k, val in t.items() if (st in k if isinstance(k, tuple) else st == k)]
                        if len(own) == 1 and v != own[0]:
                            yield ('threshold-foreign-value', f'threshold {tname!r}[{st.name}] yields {v!r}, the table of this form says {own[0]!r}')
                    except AssertionError as e:
                        yield ('threshold-lookup', f'threshold {tname!r}[{st.name}] fails: {e}')
            elif any(hasattr(m, 'name') and type(m).__name__ == type(statuses[0]).__name__ for m in members):
                yield ('threshold-enum', f'threshold {tname!r} is keyed by members of another filing-status enumeration')
        else:
            if isinstance(t, bool) or not isinstance(t, numbers.Real):
                yield ('threshold-value', f'threshold {tname!r} = {t!r}')
    # list-form-inputs parses back
    full = C.form_name if inst is None else f'{C.form_name}:{inst}'
    text, code = capture(habutax.list_form_inputs, argparse.Namespace(form=full, year=year))
    if code is not None:
        yield ('list-form-inputs', f'exits with {code}: {text[:100]!r}')
    else:
        lines = []
        for ln in text.split('\n'):
            m = re.match(r'^#([^\s#=]+) =$', ln)
            lines.append(f'{m.group(1)} = ' if m else ln)
        cp = configparser.ConfigParser()
        COUNTS['templates_parsed_back'] += 1
        try:
            cp.read_string('\n'.join(lines))
            if cp.sections() != [f.name()]:
                yield ('list-form-inputs', f'sections {cp.sections()} instead of [{f.name()}]')
            else:
                got = sorted(cp[f.name()].keys())
                want = sorted(i.base_name() for i in f.inputs())
                if got != want:
                    yield ('list-form-inputs', f'template names {sorted(set(got) ^ set(want))[:6]} differ from the form inputs')
        except configparser.Error as e:
            yield ('list-form-inputs', f'template does not parse: {type(e).__name__}: {str(e)[:120]}')


def check_year(year):
    out = []
    fl = available_forms[year]
    names = [C.form_name for C in fl]
    for n in set(names):
        if names.count(n) > 1:
            out.append((year, n, None, 'unique-name', f'{names.count(n)} catalogued forms are named {n!r}'))
    n_checked = 0
    for C in fl:
        for inst in instances(C):
            n_checked += 1
            for kind, msg in check_form(year, C, inst):
                out.append((year, C.form_name, inst, kind, msg))
    # second sweep of all status look-ups, forms in reverse order (a look-up must not depend on which form was asked before)
    for C in reversed(fl):
        for inst in instances(C):
            try:
                f = C(instance=inst)
            except Exception:
                continue
            statuses = list(status_enum(year))
            for tname, t in f._thresholds.items():
                if isinstance(t, dict):
                    for st in statuses:
                        own = [val for k, val in t.items() if (st in k if isinstance(k, tuple) else st == k)]
                        try:
                            v = f.threshold(tname, st)
                        except AssertionError:
                            continue
                        if len(own) == 1 and v != own[0]:
                            out.append((year, C.form_name, inst, 'threshold-foreign-value', f'threshold {tname!r}[{st.name}] yields {v!r}, the table of this form says {own[0]!r} (reverse sweep)'))
    # list-forms
    for jur in (None, 'US', 'NC', 'us', 'nc', 'VA'):
        for contains in (None, 'schedule', 'W-2', 'zzzz'):
            text, code = capture(habutax.list_forms, argparse.Namespace(year=year, contains=contains, jurisdiction=jur))
            rows = [l for l in text.split('\n') if ' | ' in l][2:]
            listed = [r.split('|')[0].strip() for r in rows]
            want = []
            for C in fl:
                desc = f'{C.description}: {C.long_description}'
                jm = jur is None or jur.lower() == C.jurisdiction.name.lower()
                cm = contains is None or contains.lower() in C.form_name.lower() or contains.lower() in desc.lower()
                if jm and cm:
                    want.append(C.form_name)
            if listed != want:
                out.append((year, 'list-forms', None, 'list-forms', f'jurisdiction={jur} contains={contains}: listed {listed[:5]}.. expected {want[:5]}..'))
            for r, C in zip(rows, [c for c in fl if c.form_name in want]):
                cols = [c.strip() for c in r.split('|', 2)]
                if cols[1] != C.jurisdiction.name or cols[2] != f'{C.description}: {C.long_description}':
                    out.append((year, C.form_name, None, 'list-forms-row', f'row {r!r}'))
            n_checked += 1
    return out, n_checked


def run(tier):
    run = runner.Run(PID, tier, 'exploration',
                     'every (year, form class, allowed instance): instantiation, declared year, metadata, names, sequence number and '
                     'template for fileable forms; every (threshold table, filing status) pair; list-forms for every jurisdiction/search '
                     'filter and list-form-inputs for every form instance parsed back as INI; distinct = (year, form, instance) triples')
    n = 0
    for year in sorted(available_forms):
        out, k = check_year(year)
        n += k
        for C in available_forms[year]:
            for inst in instances(C):
                run.outcome((year, C.form_name, inst))
        for year_, form, inst, kind, msg in out:
            run.violation(f'C17|{year_}|{form}|{inst}|{kind}|{msg[:50]}', dict(year=year_, form=form, instance=inst, kind=kind), f'{year_} {form}{":" + inst if inst else ""}: {msg}')
    run.evaluations = n + sum(COUNTS.values())
    run.merge_counts(COUNTS)
    run.exhaustive = True
    run.sample(dict(year=2023, form='8889', instance='spouse'))
    run.sample(dict(year=2021, form='1040', threshold='standard_deduction', status='HeadOfHousehold'))
    return run.finish()


def replay(case):
    out, k = check_year(case['year'])
    hits = [o for o in out if o[1] == case['form'] and o[3] == case['kind']]
    return (not hits), (hits[0][4] if hits else 'passes')
