"""C18  Each PDF box is filled from the line the official template assigns to it.

Exhaustive over every mapping of every form (and instance) of every year, against the field tree, accessibility
text, export values and limits parsed from the bundled templates by hv.pdfread.  Check kinds (last part of a key):
  exists   target field exists in the template (XFA SOM name and AcroForm fully-qualified name: what pdftk fills)
  line     mapped line exists among the fields of its form (own form, or `other_form.line` of the same year)
  dup      no template field is the target of two mappings of one form
  kind     Text/Button/Choice mapping targets a text/check/choice widget
  on       ButtonPDFField true value is an export (on) value of the widget
  maxlen   TextPDFField.max_length == template maxChars / comb cells / MaxLen (None == no limit)
  choices  ChoicePDFField choices are a subset of the template options
  label    the printed line number (IRS speak text, NC `_li12a_` names) / table row is the mapped line / row
  repeat   one line fills two text boxes only where the template labels both with that line, or REPEATS says so
  excl     within a group of exclusive boxes at most one is on, for every value of the driving line
  fileable every form that can require filing has a readable template and at least one mapping
"""
import functools, os, re
import hv
from hv import runner, pdfread

PID = 'C18'

# (form, mapped line as written, label found in the template) -> why the disagreement is benign
ERRATA = {
    ('1040_sb', '7b', '7a'): 'habutax calls the second yes/no pair of Schedule B line 7a (FinCEN 114 required?) "7b"; '
                             'the IRS prints it as the second question of line 7a',
    ('1040_s3', '6z_type', '8z'): 'IRS speak text of the first "list type" row of Schedule 3 line 6z says "8z" (template '
                                  'typo; field sits in Line6z_ReadOrder and its second row says 6z)',
    ('1040_s8812', '8_gt_11', '12'): 'habutax names the two line-12 boxes (is line 8 more than line 11? No/Yes) after the '
                                     'comparison they encode',
    ('1040_s8812', '4', '16b'): 'Schedule 8812 line 16b starts with a count box that re-enters line 4 (number of '
                                'qualifying children); the product goes to the next box, mapped from 16b',
}
# (form, line) that legitimately fills more than one unlabelled text box
REPEATS = {
    ('nc_d-400', 'your_last_name'): 'D-400 repeats the first 10 characters of the last name in the page-2 header',
}
# NC yes/no boxes whose template names do not share a stem
GROUP_ALIAS = {'y_d400wf_v2no': 'y_d400wf_v1'}   # "veteran" pair is named v1yes / v2no in the NC template

_LINE = re.compile(r'(?:^|[.:?)] )(?:Line )?(\d{1,2})([A-Za-z]?)\. ')
_SUB = re.compile(r'(?:[^.]*?: )?([a-z])\. |[^.]*\. ([A-H])\. ')   # '25. ... from: a. ' / '13. Check all ... jointly). A. '
_ROW = re.compile(r'\bRow: (\d+)\.|\bLine (\d+) of \d+')


def irs_label(speak):
    """(line, row) printed in the accessibility text: '25b. ...', 'Payments. 25. Federal ... from: a. Form(s) W-2.',
    '1. Amount. Line 3 of 14.', 'Row: 2. Column: (4) ...'"""
    s = re.sub(r'^,lv', '', speak) + ' '
    r = _ROW.search(s)
    row = int(r.group(1) or r.group(2)) if r else None
    s = _ROW.sub('', s)
    m = _LINE.search(s)
    if not m:
        return None, row
    num, let = m.group(1), m.group(2)
    if not let:
        m2 = _SUB.match(s[m.end():])
        let = (m2.group(1) or m2.group(2)) if m2 else ''
    return num + let.lower(), row


def nc_label(name):
    m = re.search(r'_li(\d+[a-z]?)(?:_|$)', name) or re.search(r'_fstat(\d)$', name)
    return (m.group(1) if m else None), None


def name_label(field_name):
    """(line, row) denoted by a habutax line name: '12a', '7_checkbox', '8z_type', '1_payer_3', 'dependent_2_ssn'"""
    base = field_name.rsplit('.', 1)[-1]
    m = re.match(r'(\d{1,2}[a-z]?)(?:_|$)', base)
    r = re.match(r'dependent_(\d+)_', base) or re.match(r'\d+[a-z]?_[a-z]+_(\d+)$', base)
    return (m.group(1) if m else None), (int(r.group(1)) + 1 if r else None)


class _Yes(object):
    """compares true against anything: the most permissive value for probing needs_filing"""
    __gt__ = __lt__ = __ge__ = __le__ = __eq__ = __bool__ = lambda self, *a: True
    __hash__ = None


class _Permissive(dict):
    def __contains__(self, k):
        return True

    def __getitem__(self, k):
        return _Yes()


def can_require_filing(form):
    # input-only forms inherit `return False`; one that overrides needs_filing so that it can say yes is fileable like any other
    try:
        probe = bool(form.needs_filing(_Permissive()))
    except Exception:
        probe = True
    return probe or bool(form.pdf_file()) or bool(form.pdf_fields())


def catalogue(year):
    import habutax.forms
    return {C.form_name: C for C in habutax.forms.available_forms[year]}


def instances(C):
    return list(getattr(C, 'valid_instances', [None]))


def make(C, inst):
    try:
        return C(instance=inst)
    except Exception:
        return C(instance='0')


@functools.lru_cache(maxsize=None)
def line_objects(year, full_form_name):
    from habutax.form import name_and_instance
    name, inst = name_and_instance(full_form_name)
    C = catalogue(year).get(name)
    if C is None:
        return None
    if inst is None and hasattr(C, 'valid_instances'):
        inst = C.valid_instances[0]
    return {f.name().split('.', 1)[1]: f for f in make(C, inst).fields()}


def driver_values(fobj):
    from habutax import fields
    if isinstance(fobj, fields.EnumField):
        return list(fobj.enum()) + [None]
    if isinstance(fobj, fields.BooleanField):
        return [True, False]
    if isinstance(fobj, fields.StringField):
        return ['', 'x']
    return [fobj._empty_value, fobj._type(1), fobj._type(0)]


def stem(name, T):
    """template group of a check box: IRS same-named siblings c1_3[0..4]; NC ...yes/...no pairs and fstat1..5"""
    if name in GROUP_ALIAS:
        return GROUP_ALIAS[name]
    m = re.match(r'(.*)\[\d+\]$', name)
    if m:
        sibs = [n for n in T if n.startswith(m.group(1) + '[') and T[n]['kind'] == 'checkButton']
        return m.group(1) if len(sibs) > 1 else None
    m = re.match(r'(.*?)(?:yes|no)$', name) or re.match(r'(.*_fstat)\d$', name)
    return m.group(1) if m else T.get(name, {}).get('excl_group')


def check_form(year, C, inst):
    """-> dict(viol=[(index, pdf_field_name, kind, what)], evals, counts, tokens, samples)"""
    from habutax import pdf_fields as PF
    form = make(C, inst)
    R = dict(viol=[], evals=0, counts={}, tokens=[], samples=[])
    cnt = lambda k, n=1: R['counts'].__setitem__(k, R['counts'].get(k, 0) + n)
    bad = lambda i, pf, kind, what: R['viol'].append((i, pf, kind, what))
    maps, path = list(form.pdf_fields()), form.pdf_file()
    R['evals'] += 1
    if not can_require_filing(form):
        cnt('forms_not_fileable')
        if not path and not maps:
            return R
    cnt('forms_fileable')
    if not path or not os.path.isfile(path) or not maps:
        bad(None, '-', 'fileable', f'{year} {form.name()} can require filing but template={path!r} mappings={len(maps)}')
        return R
    try:
        T = pdfread.template_fields(path)
    except Exception as e:
        bad(None, '-', 'fileable', f'{year} {form.name()}: template {path} unreadable: {e!r}')
        return R
    sc = pdfread.self_check(path)
    if sc['only_xfa'] or sc['only_acro'] or sc['mismatch']:
        cnt('observation.templates_with_xfa_acro_differences')
    irs = any(i['source'] == 'xfa' for i in T.values())
    own = line_objects(year, form.name())
    targets, by_line, buttons, label_ok = {}, {}, [], {}
    for k, m in enumerate(maps):
        pf, where = m.pdf_field_name, f'{year} {form.name()} mapping #{k} {m.field_name!r} -> {m.pdf_field_name!r}'
        cnt(f'mappings.{year}'); cnt('mappings.irs' if irs else 'mappings.nc')
        R['tokens'].append((year, C.form_name, pf))
        if len(R['samples']) < 1 and k == len(maps) // 2:
            R['samples'].append(dict(year=year, form=form.name(), pdf_field=pf, line=m.field_name, type=type(m).__name__))
        # b. mapped line exists
        R['evals'] += 1
        fobj = None
        if '.' in m.field_name:
            other, line = m.field_name.split('.', 1)
            objs = line_objects(year, other)
            fobj = (objs or {}).get(line)
            cnt('cross_form_lines')
        else:
            fobj = own.get(m.field_name)
        if fobj is None:
            bad(k, pf, 'line', f'{where}: no such line in the {year} catalogue')
        # c. target driven once
        R['evals'] += 1
        if pf in targets:
            bad(k, pf, 'dup', f'{where}: template field already driven by mapping #{targets[pf]}')
        targets.setdefault(pf, k)
        # a. target exists (XFA and AcroForm names)
        R['evals'] += 1
        t = T.get(pf)
        if t is None or (t['source'] == 'xfa' and t.get('acro') is None):
            near = [n for n in T if n.rsplit('.', 1)[-1].split('[')[0] == pf.rsplit('.', 1)[-1].split('[')[0]][:3]
            bad(k, pf, 'exists', f'{where}: no such field in {os.path.basename(path)} (similar: {near})')
            continue
        acro = t.get('acro') or t
        # kind
        R['evals'] += 1
        want = {PF.TextPDFField: ('text',), PF.ButtonPDFField: ('checkButton', 'radio'), PF.ChoicePDFField: ('choice',),
                PF.OptionlessButtonPDFField: ('pushButton',)}.get(type(m))
        if want is None or t['kind'] not in want:
            bad(k, pf, 'kind', f'{where}: {type(m).__name__} targets a {t["kind"]} widget')
        # d. export value
        if isinstance(m, PF.ButtonPDFField):
            R['evals'] += 1
            if m._true_value not in t['on_values'] or m._true_value not in acro['on_values']:
                bad(k, pf, 'on', f'{where}: true value {m._true_value!r} is not an export value of the box '
                                 f'(template: {t["on_values"]} / AcroForm states {acro["on_values"]})')
            buttons.append((k, m, fobj))
            cnt('checkbox_mappings')
        # e. length limit
        if isinstance(m, PF.TextPDFField):
            R['evals'] += 1
            lim = t['max_len'] or acro['max_len'] or None
            if (m.max_length or None) != lim:
                bad(k, pf, 'maxlen', f'{where}: max_length={m.max_length} but the template limit is {lim}'
                                     f'{" (comb)" if t.get("comb") else ""}')
            cnt('limits_equal' if lim else 'limits_none_both')
            by_line.setdefault(m.field_name, []).append(k)
        # f. choices
        if isinstance(m, PF.ChoicePDFField):
            R['evals'] += 1
            extra = [c for c in m._choices if c not in t['opts']]
            if extra:
                bad(k, pf, 'choices', f'{where}: choices {extra} are not options of the template field')
            cnt('choice_mappings')
        # g. printed line number / row
        R['evals'] += 1
        tl, trow = irs_label(t['speak']) if t['source'] == 'xfa' else nc_label(pf)
        nl, nrow = name_label(m.field_name)
        if tl is None and trow is None:
            cnt('unlabelled_mappings')
            continue
        cnt('labelled_mappings'); cnt('labelled_mappings.irs' if irs else 'labelled_mappings.nc')
        why = None
        if tl is not None and tl != nl:
            if (C.form_name, m.field_name, tl) in ERRATA:
                cnt('errata_applied'); cnt(f'errata.{C.form_name}.{m.field_name}~{tl}')
            else:
                why = f'template labels the box as line {tl!r}'
        if trow is not None and (nrow is not None or tl is None) and trow != nrow:
            why = f'template labels the box as row {trow}, the mapped line denotes row {nrow}'
        if why:
            bad(k, pf, 'label', f'{where}: {why}: {t["speak"][:160]!r}')
        else:
            label_ok[k] = True
    # one line -> several text boxes
    for line, ks in by_line.items():
        if len(ks) < 2:
            continue
        R['evals'] += 1
        cnt('lines_filling_several_boxes')
        for k in ks[1:]:
            t = T.get(maps[k].pdf_field_name) or {}
            if not all(label_ok.get(j) for j in ks) and (C.form_name, line) not in REPEATS:
                bad(k, maps[k].pdf_field_name, 'repeat',
                    f'{year} {form.name()} mapping #{k}: line {line!r} already fills {maps[ks[0]].pdf_field_name!r} and also '
                    f'fills {maps[k].pdf_field_name!r} ({t.get("speak", "")[:80]!r}); the template does not label both with that line')
    # h. exclusivity
    groups, bystem = {}, {}
    for k, m, fobj in buttons:
        s = stem(m.pdf_field_name, T)
        groups.setdefault((m.field_name, s or '*'), []).append((k, m, fobj))
        if s:
            bystem.setdefault(s, set()).add(m.field_name)
    cnt('observation.template_groups_driven_by_several_lines', sum(1 for d in bystem.values() if len(d) > 1))
    for (line, s), members in groups.items():
        fobj = members[0][2]
        if len(members) < 2 or fobj is None:
            continue
        cnt('exclusive_groups')
        for v in driver_values(fobj):
            R['evals'] += len(members)
            cnt('group_value_evaluations', len(members))
            on = [(k, m.pdf_field_name) for k, m, _ in members if m.value(v, fobj) != 'Off']
            if len(on) > 1:
                k, pf = on[1]
                bad(k, pf, 'excl', f'{year} {form.name()}: line {line!r} = {v!r} turns on {len(on)} boxes of one exclusive '
                                   f'group: {[p for _, p in on]}')
    return R


def run(tier):
    import habutax.forms
    run = runner.Run(PID, tier, 'exploration',
                     'exhaustive: every pdf_fields() mapping of every form x instance x year checked against the field '
                     'tree, accessibility text, export values and limits parsed from the bundled PDF (XFA template packet '
                     'and AcroForm tree); check-box groups x every value of the driving line; plus every box of every base return '
                     'filled through the real fill_pdfs() compared with the line mapped to it; distinct = (year, form, '
                     'template field)')
    run.exhaustive = True
    paths = set()
    for year in sorted(habutax.forms.available_forms):
        for C in habutax.forms.available_forms[year]:
            for inst in instances(C):
                r = check_form(year, C, inst)
                run.evaluations += r['evals']
                run.merge_counts(r['counts'])
                run.count('form_instances')
                for tok in r['tokens']:
                    run.outcome(tok)
                for s in r['samples']:
                    run.sample(s, cap=8)
                p = make(C, inst).pdf_file()
                if p and os.path.isfile(p) and not any(kind == 'fileable' for _, _, kind, _ in r['viol']):
                    paths.add(p)
                fname = C.form_name if inst is None else f'{C.form_name}:{inst}'
                for k, pf, kind, what in r['viol']:
                    run.violation(f'C18|{year}|{fname}|{pf}|{kind}',
                                  dict(year=year, form=C.form_name, instance=inst, index=k, kind=kind), what)
    run.count('templates_parsed', len(paths))
    for p in sorted(paths):
        sc = pdfread.self_check(p)
        for k in sc['kinds']:
            run.count(f'templates.{k}')
        run.count('templates.with_xfa' if sc['xfa'] is not None else 'templates.acroform_only')
    run.count('errata_table_entries', len(ERRATA))
    # dynamic leg: what a real fill puts into each box.  Every base return of every year is solved, written, filled through
    # the real fill_pdfs() with the stand-in pdftk, and each decoded box must hold the text of the line mapped to it
    # (blank for a mapped optional line the return did not compute).
    from hv import e3
    from hv.props import c19
    items = [(y, b.name, {}) for y in sorted(habutax.forms.available_forms) for b in e3.bases_for(y)]
    boxes = fills = 0
    for (y, bname, _), (errs, oc, nf) in zip(items, runner.pmap(c19._fill_work, items)):
        boxes += nf
        fills += 1 if nf else 0
        for kind, m in errs:
            if kind in ('fdf-content', 'template', 'fdf-unparseable'):
                run.violation(f'C18|fill|{y}|{kind}|{m[:60]}', dict(engine='fill', year=y, base=bname), f'{y} {bname}: {m}')
    run.count('fill.returns_filled', fills)
    run.count('fill.boxes_compared', boxes)
    run.evaluations += boxes
    run.assumptions.append('pdftk addresses fields by the AcroForm fully-qualified name; on IRS templates the XFA SOM names '
                           'and the AcroForm names were verified identical by pdfread.self_check')
    return run.finish()


def replay(case):
    if case.get('engine') == 'fill':
        from hv.props import c19
        errs, oc, nf = c19._fill_work((case['year'], case['base'], {}))
        errs = [m for k, m in errs if k in ('fdf-content', 'template', 'fdf-unparseable')]
        return (not errs), (errs[0] if errs else f'{nf} boxes hold the mapped text')
    C = catalogue(case['year']).get(case['form'])
    if C is None:
        return False, f'form {case["form"]} is no longer in the {case["year"]} catalogue'
    hits = [w for k, pf, kind, w in check_form(case['year'], C, case.get('instance'))['viol']
            if k == case.get('index') and kind == case.get('kind')]
    return (not hits), (hits[0] if hits else 'mapping passes')
