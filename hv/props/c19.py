"""C19: the fill step transmits values faithfully and files exactly the right forms."""
import configparser
import itertools
import os
import re
import tempfile
import shutil
import atexit

import hv
from hv import runner, world, e3, cli
import habutax
from habutax import fields as hf, pdf_fields as hpf, pdf_filler, values as hvalues
from habutax.form import Form, InputForm, Jurisdiction
from habutax.forms import available_forms

PID = 'C19'
ALPHABET = ['(', ')', '\\', "'", '"', 'a', ' ']
_TMP = tempfile.mkdtemp(prefix='hvc19_')
atexit.register(lambda: shutil.rmtree(_TMP, ignore_errors=True))

# independent filing table: form -> (jurisdiction rank, official attachment sequence number, condition)
FILING = {
    '1040': (0, 0, None), '1040_s1': (0, 1, None), '1040_s3': (0, 3, None), '1040_sa': (0, 7, 'itemizing'),
    '1040_sb': (0, 8, None), '1040_s8812': (0, 47, None), '8606': (0, 48, None), '8889': (0, 52, None),
    '8995': (0, 55, None), '8959': (0, 71, None),
    'nc_d-400': (1, 0, None), 'nc_d-400_ss': (1, 1, None), 'nc_d-400_sa': (1, 2, 'nc_itemizing'),
}


# --------------------------------------------------------------------------
# independent PDF literal string / FDF reader
class FDFError(Exception):
    pass


def read_literal(data, pos):
    """data[pos] == '('; returns (decoded string, position after the closing paren)"""
    assert data[pos] == '('
    depth = 1
    out = []
    i = pos + 1
    n = len(data)
    while i < n:
        c = data[i]
        if c == '\\':
            i += 1
            if i >= n:
                raise FDFError('dangling backslash')
            e = data[i]
            if e in 'nrtbf':
                out.append({'n': '\n', 'r': '\r', 't': '\t', 'b': '\b', 'f': '\f'}[e])
                i += 1
            elif e in '()\\':
                out.append(e)
                i += 1
            elif e in '01234567':
                j = i
                while j < n and j < i + 3 and data[j] in '01234567':
                    j += 1
                out.append(chr(int(data[i:j], 8) & 0xFF))
                i = j
            elif e == '\n':
                i += 1
            elif e == '\r':
                i += 1
                if i < n and data[i] == '\n':
                    i += 1
            else:
                out.append(e)    # unknown escape: the backslash is ignored
                i += 1
        elif c == '(':
            depth += 1
            out.append(c)
            i += 1
        elif c == ')':
            depth -= 1
            if depth == 0:
                return ''.join(out), i + 1
            out.append(c)
            i += 1
        elif c == '\r':
            out.append('\n')
            i += 1
            if i < n and data[i] == '\n':
                i += 1
        else:
            out.append(c)
            i += 1
    raise FDFError('unterminated string')


def read_fdf(text):
    """returns list of (T, V); raises FDFError when the file is not what a PDF reader would parse as
    a field array of << /T (..) /V (..) >> dictionaries followed by the trailer"""
    m = re.search(r'/Fields\s*\[', text)
    if not m:
        raise FDFError('no /Fields array')
    i = m.end()
    out = []
    n = len(text)

    def ws(i):
        while i < n and text[i] in ' \t\r\n':
            i += 1
        return i
    while True:
        i = ws(i)
        if i >= n:
            raise FDFError('array not closed')
        if text[i] == ']':
            i += 1
            break
        if not text.startswith('<<', i):
            raise FDFError(f'unexpected {text[i:i + 12]!r} in the field array')
        i = ws(i + 2)
        d = {}
        while not text.startswith('>>', i):
            mm = re.match(r'/([A-Za-z]+)', text[i:])
            if not mm:
                raise FDFError(f'unexpected {text[i:i + 12]!r} in a field dictionary')
            key = mm.group(1)
            i = ws(i + mm.end())
            if i >= n or text[i] != '(':
                raise FDFError(f'value of /{key} is not a string')
            sval, i = read_literal(text, i)
            d[key] = sval
            i = ws(i)
            if i >= n:
                raise FDFError('dictionary not closed')
        i += 2
        if set(d) != {'T', 'V'}:
            raise FDFError(f'field dictionary with keys {sorted(d)}')
        out.append((d['T'], d['V']))
    rest = text[i:]
    if not re.match(r'\s*>>\s*>>\s*endobj\s*trailer\s*<<\s*/Root 1 0 R\s*>>\s*%%EOF', rest):
        raise FDFError(f'trailer damaged: {rest[:60]!r}')
    return out


# --------------------------------------------------------------------------
def fdf_roundtrip(data):
    """data: dict name -> value through the real PDFFiller._create_fdf; returns error or None"""
    p = pdf_filler.PDFFiller(configparser.ConfigParser(), [], '/dev/null')
    path = os.path.join(_TMP, f'x_{os.getpid()}.fdf')
    p._create_fdf(data, path)
    with open(path, encoding='utf-8', newline='') as f:
        text = f.read()
    try:
        got = read_fdf(text)
    except FDFError as e:
        return f'FDF does not parse: {e}'
    if got != list(data.items()):
        return f'FDF decodes to {got!r}'
    return None


def _string_work(arg):
    prefix, L = arg
    errs = []
    n = 0
    for k in range(L - len(prefix) + 1):
        for t in itertools.product(ALPHABET, repeat=k):
            s = prefix + ''.join(t)
            n += 1
            m = fdf_roundtrip({'topmostSubform[0].Page1[0].f1_04[0]': s, 'box ' + s: 'v', 'z': 'last'})
            if m and len(errs) < 20:
                errs.append((s, m))
    return errs, n


def _long_work(arg):
    kind, n = arg
    errs = []
    k = 0
    for c in ('(', ')', '\\', '()', ')(', '\\(', "'"):
        s = 'a' * n + c + 'bcd'
        k += 1
        m = fdf_roundtrip({'topmostSubform[0].Page1[0].f1_04[0]': s, 'n' + s: 'v', 'z': 'last'})
        if m:
            errs.append((s, m[:200]))
    return errs, k


def expected_filing(solution):
    """independent rule -> ordered list of groups [(rank, seq, [form instance names])]"""
    want = []
    for sec in solution:
        name = sec.split(':')[0]
        if name not in FILING:
            continue
        rank, seq, cond = FILING[name]
        if cond == 'itemizing' and solution.get('1040', {}).get('itemizing') != 'True':
            continue
        if cond == 'nc_itemizing':
            sa = solution.get('nc_d-400_sa', {})
            if 'deduction' not in sa or not (float(sa['10']) > float(sa['nc_standard_deduction'])):
                continue
        want.append((rank, seq, sec))
    want.sort()
    return want


def _fill_work(arg):
    year, bname, assign = arg
    base = e3.base_by_name(bname, year)
    r, asked = e3.run_return(year, base, assign, keep_solver=True)
    errs = []
    if r.exc is not None or not r.verdict:
        return errs, r.outcome_class(), 0
    typed = dict(r.solver._v.values)
    with cli.workdir() as d:
        sol = os.path.join(d, 'solution.ini')
        inp = os.path.join(d, 'in.ini')
        cli.write_inputs(inp, r.final_inputs)
        res = cli.solve_cli(year, base.requested, inp, solution=sol)
        if res['exc'] is not None:
            return [('cli-solve-raised', str(res['exc']))], r.outcome_class(), 0
        outpdf = os.path.join(d, 'out.pdf')
        fr = cli.fill_cli(sol, outpdf)
    want = expected_filing(r.solution)
    if fr['exc'] is not None:
        if fr['exc'][0] in ('PDFValueTooLong', 'PDFInvalidChoiceValue'):
            # a value does not fit: the fill must stop without producing the final document
            if any('cat' in c for c in fr['cmds']):
                errs.append(('cat-after-error', f'{fr["exc"]} but the final document was still assembled'))
            return errs, 'fill-refused:' + fr['exc'][0], 0
        errs.append(('fill-raised', str(fr['exc'])))
        return errs, r.outcome_class(), 0
    fl = {C.form_name: C for C in available_forms[year]}
    ydir = os.path.join(hv.REPO, 'habutax', 'forms', f'ty{year}')
    fmap = {}
    insts = {}
    for sec in r.solution:
        nm, _, ins = sec.partition(':')
        fobj = fl[nm](instance=ins or None)
        insts[sec] = fobj
        for fld in fobj.fields():
            fmap[fld.name()] = fld
    by_template = {}
    for sec, fobj in insts.items():
        if fobj.pdf_file():
            by_template.setdefault(os.path.abspath(fobj.pdf_file()), []).append(sec)

    def expected_fdf(form):
        exp = []
        for pf in form.pdf_fields():
            ln = pf.field_name if '.' in pf.field_name else f'{form.name()}.{pf.field_name}'
            if ln in typed:
                exp.append((pf.pdf_field_name, pf.value(_coerce(typed[ln], fmap[ln]), fmap[ln])))
            else:
                exp.append((pf.pdf_field_name, ''))
        return exp
    # attribute every fill_form invocation to a form instance of the solution: by template, then by content
    nfields = 0
    filled = []
    out_to_inst = {}
    for k, c in enumerate(fr['cmds']):
        if 'fill_form' not in c:
            continue
        tpl = os.path.abspath(c[0])
        outp = c[c.index('output') + 1]
        if not tpl.startswith(ydir) or tpl not in by_template:
            errs.append(('template', f'fill_form on {c[0]}, which is not the template of any form of this {year} solution'))
            continue
        try:
            got = read_fdf(fr['fdfs'][k].decode('utf-8'))
        except (FDFError, KeyError, UnicodeDecodeError) as e:
            errs.append(('fdf-unparseable', f'{os.path.basename(tpl)}: {e}'))
            continue
        match = None
        cands = by_template[tpl]
        for sec in cands:
            if got == expected_fdf(insts[sec]) and sec not in filled:
                match = sec
                break
        if match is None:
            for sec in cands:
                if got == expected_fdf(insts[sec]):
                    match = sec
        if match is None:
            exp = expected_fdf(insts[cands[0]])
            bad = [(a, b) for a, b in zip(got, exp) if a != b][:3]
            errs.append(('fdf-content', f'{cands}: first differing (decoded, mapped): {bad} (counts {len(got)}/{len(exp)})'))
            match = cands[0]
        nfields += len(got)
        filled.append(match)
        out_to_inst.setdefault(outp, []).append(match)
    cats = [c for c in fr['cmds'] if 'cat' in c]
    if sorted(filled) != sorted(w[2] for w in want):
        errs.append(('wrong-forms-filed', f'filled {sorted(filled)}, the solution requires {sorted(w[2] for w in want)}'))
    if len(cats) != 1:
        errs.append(('cat-count', f'{len(cats)} cat invocations'))
    else:
        c = cats[0]
        paths = c[:c.index('cat')]
        keyof = {w[2]: (w[0], w[1]) for w in want}
        order = []
        for pth in paths:
            lst = out_to_inst.get(pth, [])
            order.append(lst[-1] if lst else '?')    # the file holds what was written to it last
        if len(set(paths)) != len(paths):
            errs.append(('cat-duplicate', f'the same filled file is assembled twice: {[os.path.basename(x) for x in paths]}'))
        if sorted(order) != sorted(w[2] for w in want):
            errs.append(('cat-set', f'assembled {order}, the solution requires {sorted(w[2] for w in want)}'))
        elif [keyof.get(o, (9, 9)) for o in order] != sorted(keyof.get(o, (9, 9)) for o in order):
            errs.append(('cat-order', f'assembled in order {order}; by jurisdiction and attachment sequence it should be {[w[2] for w in want]}'))
        if c[c.index('output') + 1] != outpdf:
            errs.append(('cat-output', f'output {c[c.index("output") + 1]}'))
    return errs, r.outcome_class(), nfields


def _coerce(v, fld):
    if isinstance(fld, hf.EnumField) and v is not None:
        return fld.enum()[v.name]
    if isinstance(v, str):
        # the solution travels through an INI file, which does not keep white space at the ends of a value (C14 compares
        # text up to that); what the filler maps is the text as the file holds it
        return '\n'.join(l.strip() for l in v.strip().split('\n'))
    return v


def limits_cases():
    """per text box with a length limit / per choice box: values of length limit-1, limit, limit+1 / outside the list"""
    errs, n = [], 0
    for year, fls in available_forms.items():
        for C in fls:
            insts = getattr(C, 'valid_instances', [None])
            f = C(instance=insts[0])
            fields = {x.name(): x for x in f.fields()}
            for pf in f.pdf_fields():
                ln = pf.field_name if '.' in pf.field_name else f'{f.name()}.{pf.field_name}'
                if isinstance(pf, hpf.TextPDFField) and pf.max_length is not None and pf._value_fn is None:
                    fld = fields.get(ln)
                    if not isinstance(fld, hf.StringField):
                        continue
                    for ln_ in (pf.max_length - 1, pf.max_length, pf.max_length + 1):
                        n += 1
                        s = 'a' * ln_
                        try:
                            out = pf.value(s, fld)
                            if ln_ > pf.max_length:
                                errs.append((year, f.name(), pf.pdf_field_name, f'{ln_} characters accepted for a box of {pf.max_length}: {out!r}'))
                            elif out != s:
                                errs.append((year, f.name(), pf.pdf_field_name, f'value altered: {out!r}'))
                        except hpf.PDFValueTooLong:
                            if ln_ <= pf.max_length:
                                errs.append((year, f.name(), pf.pdf_field_name, f'{ln_} characters refused for a box of {pf.max_length}'))
                if isinstance(pf, hpf.ChoicePDFField):
                    fld = fields.get(ln)
                    for s in list(pf._choices) + ['zz-not-a-choice']:
                        n += 1
                        try:
                            raw = hpf.PDFField.value(pf, s, fld) if pf._value_fn is None else None
                            out = pf.value(s, fld) if pf._value_fn is None else None
                            if pf._value_fn is None and s not in pf._choices:
                                errs.append((year, f.name(), pf.pdf_field_name, f'value {s!r} outside the choice list accepted'))
                        except hpf.PDFInvalidChoiceValue:
                            if s in pf._choices:
                                errs.append((year, f.name(), pf.pdf_field_name, f'listed choice {s!r} refused'))
                        except Exception:
                            pass
    return errs, n


def run(tier):
    run = runner.Run(PID, tier, 'exploration',
                     'every string <= L over {( ) \\ \' " a space} as a field value and inside a field name through the real '
                     'PDFFiller._create_fdf, decoded by an independent PDF literal-string reader; every solved base return and its '
                     'd<=1 children through `habutax solve --solution` + `fill-pdfs` with a stand-in pdftk (forms filed, order, '
                     'template, decoded FDF content); length-limit and choice-list boundaries of every mapping')
    L = 5 if tier == 'quick' else 7
    run.extra['string_length_bound'] = L
    items = [('', 1)] + [(a + b, L) for a in ALPHABET for b in ALPHABET]
    ns = 0
    for errs, n in runner.pmap(_string_work, runner.rotate(items, run.seed), chunksize=1):
        ns += n
        for s, m in errs:
            run.violation('C19|fdf-string|' + _cls(s), dict(engine='string', text=s), f'text {s!r}: {m}')
    # long values: a special character at every offset 0..600 of an otherwise plain text (line-wrapping, buffer limits)
    long_items = [('long', n) for n in range(0, 601, 1)]
    for errs, n in runner.pmap(_long_work, long_items, chunksize=20):
        ns += n
        for s_, m in errs:
            run.violation('C19|fdf-long-string|' + _cls(s_), dict(engine='string', text=s_), f'text of length {len(s_)} with a special character at offset {len(s_) - 4}: {m}')
    run.count('strings', ns)
    errs, nl = limits_cases()
    run.count('limit_cases', nl)
    for year, form, box, m in errs:
        run.violation(f'C19|limit|{year}|{form}|{box}', dict(engine='limit', year=year, form=form, box=box), m)
    items = []
    for year in (2021, 2022, 2023):
        for base in e3.bases_for(year):
            items.append((year, base.name, {}))
            if tier == 'thorough' or base.name in ('B0-single-wage', 'B1-mfj-kids-itemize', 'B6-nc', 'B7-dense'):
                r, asked = e3.run_return(year, base, {})
                for nme, a, alts in asked:
                    for alt in alts:
                        items.append((year, base.name, {nme: alt}))
    nr = nf = 0
    for (year, bname, assign), (errs, oc, nfields) in zip(items, runner.pmap(_fill_work, items)):
        nr += 1
        nf += nfields
        run.outcome(('fill', year, bname, oc))
        for kind, m in errs:
            run.violation(f'C19|fill|{year}|{kind}|{m[:50]}', dict(engine='fill', year=year, base=bname, assign=assign), m)
    run.count('returns_filled', nr)
    run.count('fdf_fields_compared', nf)
    run.evaluations = ns + nl + nf
    run.distinct_n = ns + len(run.distinct)
    run.exhaustive = True
    run.sample(dict(engine='string', text="O(Brien", as_value_and_in_name=True))
    run.sample(dict(engine='fill', year=2023, base='B6-nc', expected_order=['1040', '1040_s8812', 'nc_d-400', 'nc_d-400_ss']))
    run.assumptions = ['printable ASCII only', 'independent literal-string decoder c19.read_literal', 'filing table c19.FILING (official attachment sequence numbers)']
    return run.finish()


def _cls(s):
    return ''.join(sorted(set(c for c in s if c in '()\\')))


def replay(case):
    if case.get('engine') == 'string':
        s = case['text']
        m = fdf_roundtrip({'topmostSubform[0].Page1[0].f1_04[0]': s, 'box ' + s: 'v', 'z': 'last'})
        return (m is None), (m or 'passes')
    if case.get('engine') == 'fill':
        errs, oc, n = _fill_work((case['year'], case['base'], case['assign']))
        return (not errs), (str(errs[:1]) if errs else f'passes ({oc})')
    errs, n = limits_cases()
    return (not errs), (str(errs[:1]) if errs else 'passes')
