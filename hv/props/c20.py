"""C20: interrupting an interactive solve never loses input already given.

Sessions = `habutax solve --prompt-missing --writeback-input` (the real habutax.solve(args), in process, scripted
input()) on base returns started from {no file, empty file, file with half the inputs}; for every prompt index k and
every interruption kind; followed by a second, uninterrupted run on the resulting file."""
import configparser
import os
import re

import hv
from hv import runner, e3, cli, world
import habutax
from habutax import form as hform
from habutax.forms import available_forms

PID = 'C20'
KINDS = ['ctrl-c', 'ctrl-c-at-retry', 'eof', 'absent-form', 'line-raises', 'ctrl-c-while-solving']
NAME_RE = re.compile(r'----\[ (\S+) \]----')


class _Specs(object):
    """input name -> Input object of the year's catalogue"""

    def __init__(self, year):
        self.fm = {C.form_name: C for C in available_forms[year]}
        self.cache = {}

    def get(self, name):
        if name not in self.cache:
            sec, base = name.split('.')
            fn, inst = hform.name_and_instance(sec)
            f = self.fm[fn](instance=inst)
            for i in f.inputs():
                self.cache[i.name()] = i
        return self.cache[name]


class Armed(Exception):
    pass


def armed_forms(year, state):
    """subclasses of the year's forms whose lines misbehave once state['answers'] >= state['k']"""
    out = []
    for C in available_forms[year]:
        def __init__(self, _C=C, **kw):
            _C.__init__(self, **kw)
            for f in self.fields():
                _arm(f, state)
        out.append(type(C.__name__, (C,), {'__init__': __init__}))
    return out


def _arm(f, state):
    orig = f.value

    def value(inputs, values):
        if state['kind'] is not None and state['answers'] >= state['k'] and not state['fired']:
            state['fired'] = True
            if state['kind'] == 'line-raises':
                raise Armed(f'line {f.name()} failed')
            if state['kind'] == 'ctrl-c-while-solving':
                raise KeyboardInterrupt()
            return values['zz_absent.1']
        return orig(inputs, values)
    f.value = value


TEXT = 'Unit #7 ; rear (B) = x: y 100%% z'


class _Adv(object):
    """base policy whose free-text answers carry comment characters, delimiters and parentheses"""

    def __init__(self, base):
        self.base = base
        self.requested = base.requested
        self.name = base.name

    def answer(self, inp, name=None):
        from habutax import inputs as hi
        a = self.base.answer(inp, name=name)
        if type(inp) is hi.StringInput and a == 'x':
            return TEXT
        return a


class _Blank(_Adv):
    """the same filer pressing Enter wherever a blank answer is acceptable and the base return does not care"""

    def answer(self, inp, name=None):
        import fnmatch
        n = name or inp.name()
        b = self.base
        if n not in b._exact and not any(fnmatch.fnmatchcase(n, p) for p, _ in b._pat) and inp.valid(''):
            return ''
        return _Adv.answer(self, inp, name=name)


POLICY = {'adv': _Adv, 'blank': _Blank}


def write_template(path, year, requested, values):
    import argparse, contextlib, io
    out = io.StringIO()
    secs = sorted(set(list(requested) + [k.split('.')[0] for k in values]))
    with contextlib.redirect_stdout(out):
        for sec in secs:
            try:
                habutax.list_form_inputs(argparse.Namespace(form=sec, year=year))
            except SystemExit:
                pass
            print()
    lines = []
    cur = None
    for ln in out.getvalue().split('\n'):
        m = re.match(r'^\[(.+)\]$', ln)
        if m:
            cur = m.group(1)
        m = re.match(r'^#([^\s#=]+) =$', ln)
        if m and cur and f'{cur}.{m.group(1)}' in values:
            ln = f'{m.group(1)} = {values[cur + "." + m.group(1)]}'
        lines.append(ln)
    with open(path, 'w') as fh:
        fh.write('\n'.join(lines))


def read_ini(path):
    cp = configparser.ConfigParser()
    with open(path) as fh:
        cp.read_file(fh)
    # raw: what the file holds, not what '%%' stands for
    return {f'{sec}.{k}': v for sec in cp.sections() for k, v in cp.items(sec, raw=True)}


def session(year, base, start, k, kind, halfset=None):
    """returns (errors, info)"""
    errs = []
    specs = _Specs(year)
    state = dict(kind=kind if kind in ('absent-form', 'line-raises', 'ctrl-c-while-solving') else None, k=k, answers=0, fired=False)
    given = {}        # answers accepted before the interruption
    interrupted = {'at': None}

    def script(prompt, idx):
        m = NAME_RE.search(prompt)
        if m:
            script.cur = m.group(1)
            script.n += 1
            pidx = script.n - 1
            if kind == 'ctrl-c' and pidx == k:
                interrupted['at'] = script.cur
                return cli.Interrupt(KeyboardInterrupt())
            if kind == 'eof' and pidx == k:
                interrupted['at'] = script.cur
                return cli.Interrupt(EOFError())
            if kind == 'ctrl-c-at-retry' and pidx == k:
                return '\x00not valid\x00' if not specs.get(script.cur).valid('\x00not valid\x00') else cli.Interrupt(KeyboardInterrupt())
            a = base.answer(specs.get(script.cur))
            given[script.cur] = a
            state['answers'] += 1
            return a
        # "Invalid input, try again?: "
        if kind == 'ctrl-c-at-retry':
            interrupted['at'] = script.cur
            return cli.Interrupt(KeyboardInterrupt())
        errs.append(('harness', f'unexpected re-prompt for {script.cur}'))
        return cli.Interrupt(EOFError())
    script.n = 0
    script.cur = None

    saved = available_forms[year]
    with cli.workdir() as d:
        path = os.path.join(d, 'inputs.ini')
        before = {}
        if start == 'empty':
            open(path, 'w').close()
        elif start == 'half':
            before = dict(halfset)
            cli.write_inputs(path, before)
        elif start == 'template':
            # the documented workflow: `habutax list-form-inputs` output with some values filled in (long file, comments)
            before = dict(halfset)
            write_template(path, year, base.requested, before)
        if state['kind'] is not None:
            habutax.forms.available_forms[year] = armed_forms(year, state)
        try:
            res = cli.solve_cli(year, base.requested, path, script=script, prompt_missing=True, writeback=True)
        finally:
            habutax.forms.available_forms[year] = saved
        info = dict(prompts=script.n, exc=res['exc'], interrupted=interrupted['at'] is not None or state['fired'])
        # --- oracle 1: the file is well-formed and contains everything
        if not os.path.exists(path):
            errs.append(('file-missing', 'no input file after the run'))
            return errs, info
        try:
            after = read_ini(path)
        except Exception as e:
            errs.append(('file-malformed', f'{type(e).__name__}: {e}'))
            return errs, info
        for name, v in before.items():
            if after.get(name) != v.strip():
                errs.append(('prior-value-lost', f'{name} was {v!r} before the run, now {after.get(name)!r}'))
        for name, v in given.items():
            if name not in after:
                errs.append(('answer-lost', f'answer {v!r} given for {name} before the interruption is not in the file'))
            elif after[name] != v.strip():
                errs.append(('answer-changed', f'{name}: answered {v!r}, file has {after[name]!r}'))
        # --- oracle 2: the second run does not ask again
        asked2 = []

        def script2(prompt, idx):
            m = NAME_RE.search(prompt)
            if m:
                asked2.append(m.group(1))
                return base.answer(specs.get(m.group(1)))
            return cli.Interrupt(EOFError())
        res2 = cli.solve_cli(year, base.requested, path, script=script2, prompt_missing=True, writeback=True)
        again = [n for n in asked2 if n in given or n in before]
        if again:
            errs.append(('asked-again', f'second run asked again for {again[:4]}'))
        info['second_prompts'] = len(asked2)
        info['second_exc'] = res2['exc']
    return errs, info


def _work(arg):
    year, bname, start, k, kind, halfset = arg[:6]
    base = POLICY[arg[6] if len(arg) > 6 else 'adv'](e3.base_by_name(bname, year))
    errs, info = session(year, base, start, k, kind, halfset)
    return errs, info


def plan(year, base):
    """number of prompts of the uninterrupted session per start, and the half set"""
    r, asked = e3.run_return(year, base, {})
    names = [a[0] for a in asked]
    half = {n: a for (n, a, alts) in asked[::2]}
    return len(names), half


def run(tier):
    run = runner.Run(PID, tier, 'fault_enumeration',
                     'sessions of the real habutax.solve(args) with --prompt-missing --writeback-input on base returns, from '
                     '{no file, empty file, half the inputs, the commented list-form-inputs template with half the inputs filled in}; every prompt index k x {Ctrl-C, Ctrl-C at the invalid-input re-prompt, '
                     'EOF, unsupported form reached after k answers, a line definition raising after k answers, Ctrl-C arriving while a line is being computed after k answers}; then a second run; '
                     'distinct = (year, base, start, kind, k) sessions in which the interruption actually happened')
    if tier == 'quick':
        sel = [(2023, 'B0-single-wage', 'adv'), (2023, 'B6-nc', 'adv'), (2022, 'B4-schedule1', 'adv'), (2021, 'B0-single-wage', 'adv'),
               (2022, 'B4-schedule1', 'blank'), (2023, 'B0-single-wage', 'blank')]
        starts = ['none', 'half', 'template']
    else:
        sel = [(y, b.name, 'adv') for y in (2021, 2022, 2023) for b in e3.bases_for(y)] + \
              [(y, bn, 'blank') for y in (2021, 2022, 2023) for bn in ('B0-single-wage', 'B4-schedule1', 'B6-nc', 'B2-investor')]
        starts = ['none', 'empty', 'half', 'template']
    items = []
    for year, bname, pol in sel:
        base = POLICY[pol](e3.base_by_name(bname, year))
        P, half = plan(year, base)
        for start in starts:
            p = P - len(half) if start in ('half', 'template') else P
            for kind in KINDS:
                if pol == 'blank' and kind not in ('ctrl-c', 'eof', 'line-raises'):
                    continue
                for k in range(p + 1):
                    items.append((year, bname, start, k, kind, half if start in ('half', 'template') else None, pol))
        run.extra.setdefault('sessions_planned', {})[f'{year}/{bname}/{pol}'] = dict(prompts=P, half=len(half))
    items = runner.rotate(items, run.seed)
    n = hit = 0
    for it, (errs, info) in zip(items, runner.pmap(_work, items)):
        n += 1
        year, bname, start, k, kind, _, pol = it
        if info.get('interrupted'):
            hit += 1
        run.count('sessions:' + kind)
        if info.get('exc'):
            run.count('first_run_exit:' + info['exc'][0])
        for ekind, m in errs:
            run.violation(f'C20|{kind}|{ekind}|{year}|{bname}|{start}' + ('' if pol == 'adv' else '|' + pol),
                          dict(engine='session', year=year, base=bname, start=start, k=k, kind=kind, policy=pol), f'k={k}: {m}')
    run.evaluations = 2 * n
    run.distinct_n = hit
    run.count('sessions', n)
    run.count('sessions_interrupted', hit)
    run.exhaustive = True
    run.sample(dict(year=2023, base='B0-single-wage', start='half', kind='eof', k=17))
    run.sample(dict(year=2023, base='B6-nc', start='none', kind='line-raises', k=40))
    run.assumptions = ['crash points inside open()/write() of the write-back itself are not enumerated (the property lists user/solver level interruptions)',
                       'interruptions are injected in process (KeyboardInterrupt/EOFError raised by input(); instrumented form subclasses for failing lines)']
    return run.finish()


def replay(case):
    base = POLICY[case.get('policy', 'adv')](e3.base_by_name(case['base'], case['year']))
    P, half = plan(case['year'], base)
    errs, info = session(case['year'], base, case['start'], case['k'], case['kind'], half if case['start'] in ('half', 'template') else None)
    return (not errs), (str(errs[:1]) if errs else f'passes {info}')
