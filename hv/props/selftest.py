"""setup_cmd: harness self-test (nothing to compile)."""
import hv


def run(tier):
    from hv import world, refeval, e1, e2a, gen
    r = e1.explore(3)
    assert r['states'] > 50 and not r['violations'], r
    # a toy program agrees with its reference
    prog = [dict(form='a', name='1', req=True, body=[('RI', 'p'), ('RL', 'b.2')]),
            dict(form='b', name='2', req=False, body=[('G', ('RI', 'q'))])]
    n = 0
    for env in e2a.environments(prog):
        v, c, o = gen.check_case(prog, env, 'C01')
        assert not v, v
        n += c['executions']
    assert n > 20
    print(f'selftest ok: e1 states={r["states"]}, toy executions={n}, repo={hv.REPO}')
    return 0


def replay(case):
    return True, 'n/a'
