"""Reference evaluator: chaotic iteration to the least fixed point.

Independent of habutax.solver: no queue, no dependency trackers, no sort order.
Shares only the form definitions (which are the subject, not the oracle).

    ref = Ref(form_list, requested, final_inputs)   # final_inputs: 'form.key' -> string
    ref.run()
    ref.abort      None | (class, detail)   -- a demanded line reaches an absent form / invalid input / unknown name
    ref.values     line -> value
    ref.demanded   set of lines (demand closure)
    ref.unimpl     set of lines that signalled not-implemented
    ref.needs      input -> set(lines blocked on it)
    ref.blocked    line x -> set(lines blocked on x)
    ref.reads      line -> list of (kind, name, value) read by the attempt that produced its value
"""
from collections.abc import Mapping

import hv
from habutax import inputs as hinputs, values as hvalues, fields as hfields, form as hform


class Abort(Exception):
    def __init__(self, cls, detail):
        self.cls, self.detail = cls, detail
        super().__init__(f'{cls}: {detail}')


class _Unavailable(Exception):
    def __init__(self, kind, name):
        self.kind, self.name = kind, name


class _IAcc(Mapping):
    def __init__(self, ref, form, reads):
        self.ref, self.form, self.reads = ref, form, reads

    def __getitem__(self, key):
        full = key if '.' in key else f'{self.form.name()}.{key}'
        v = self.ref.read_input(full)
        self.reads.append(('i', full, v))
        return v

    def __iter__(self):
        return iter(())

    def __len__(self):
        return 0


class _VAcc(Mapping):
    def __init__(self, ref, form, reads):
        self.ref, self.form, self.reads = ref, form, reads

    def __getitem__(self, key):
        full = key if '.' in key else f'{self.form.name()}.{key}'
        if full not in self.ref.values:
            raise _Unavailable('v', full)
        v = self.ref.values[full]
        self.reads.append(('v', full, v))
        return v

    def __iter__(self):
        return iter(self.ref.values)

    def __len__(self):
        return len(self.ref.values)


class Ref(object):
    def __init__(self, form_list, requested, final_inputs, preset_values=None, requested_lines=()):
        self.form_map = {f.form_name: f for f in form_list}
        self.requested = list(requested)
        self.requested_lines = list(requested_lines)
        self.inputs = dict(final_inputs)
        self.forms = {}          # participating form instances (name -> obj); what field.form(name) sees
        self.spec_forms = {}     # form instance name -> obj, loaded for input specs
        self.fields = {}         # line name -> Field
        self.values = dict(preset_values or {})
        self.demanded = []       # ordered, no duplicates
        self._dem = set()
        self.unimpl = set()
        self.needs = {}
        self.blocked = {}
        self.reads = {}
        self.abort = None
        self.evaluations = 0
        self.failed = {}         # line -> (exception class, msg) for definitions that raised something else

    # -- catalogue -------------------------------------------------------
    def _instantiate(self, inst_name):
        name, inst = hform.name_and_instance(inst_name)
        if name not in self.form_map:
            raise Abort('AbsentForm', name)
        return self.form_map[name](solver=self, instance=inst)

    def _load(self, inst_name):
        """make a form instance participate (its required lines become demanded)"""
        if inst_name in self.forms:
            return
        f = self.spec_forms.get(inst_name)
        if f is None or True:
            # a participating form is a fresh instance, like in the solver (the
            # spec-only instance and the participating instance are different objects)
            f = self._instantiate(inst_name)
        self.spec_forms.setdefault(inst_name, f)
        self.forms[inst_name] = f
        for fld in f.fields():
            self.fields[fld.name()] = fld
        for fld in f.required_fields():
            self._demand(fld.name())

    def _demand(self, line):
        if line not in self._dem:
            self._dem.add(line)
            self.demanded.append(line)

    def read_input(self, full):
        sec, base = full.split('.')
        if sec not in self.spec_forms:
            self.spec_forms[sec] = self._instantiate(sec)
        spec = None
        for i in self.spec_forms[sec].inputs():
            if i.base_name() == base:
                spec = i
        if spec is None and sec in self.forms:
            for i in self.forms[sec].inputs():
                if i.base_name() == base:
                    spec = i
        if spec is None:
            raise Abort('UnknownInput', full)
        if full not in self.inputs:
            raise _Unavailable('i', full)
        s = self.inputs[full]
        if '%' in s:
            # the INI layer's own syntax: a lone % is refused by it (loudly, on either route), %% stands for %
            import configparser
            try:
                s = configparser.BasicInterpolation().before_get(configparser.ConfigParser(), sec, base, s, {})
            except configparser.Error:
                raise Abort('IniSyntax', full)
        if not spec.valid(s):
            raise Abort('InvalidInput', full)
        return spec.value(s)

    # -- evaluation --------------------------------------------------------
    def _attempt(self, line):
        fld = self.fields[line]
        reads = []
        self.evaluations += 1
        try:
            val = fld.value(_IAcc(self, fld.form(), reads), _VAcc(self, fld.form(), reads))
        except _Unavailable as u:
            return ('wait', u.kind, u.name)
        except hfields.FieldNotImplemented:
            return ('unimpl',)
        except Abort:
            raise
        except RecursionError:
            raise Abort('RecursionError', line)
        except Exception as e:
            raise Abort('LineRaised:' + type(e).__name__, f'{line}: {e}')
        self.values[line] = val
        self.reads[line] = reads
        return ('value',)

    def run(self):
        try:
            for r in self.requested:
                self._load(r)
            for line in self.requested_lines:      # specifically requested (optional) lines of the requested forms
                if line not in self.fields:
                    raise Abort('UnknownLine', line)
                self._demand(line)
            waiting = {}   # line -> (kind, name) it last stopped at
            progress = True
            while progress:
                progress = False
                for line in list(self.demanded):
                    if line in self.values or line in self.unimpl:
                        continue
                    w = waiting.get(line)
                    if w is not None:
                        kind, name = w
                        if kind == 'v' and name not in self.values:
                            continue
                        if kind == 'i' and name not in self.inputs:
                            continue
                    res = self._attempt(line)
                    progress = True
                    if res[0] == 'value':
                        waiting.pop(line, None)
                    elif res[0] == 'unimpl':
                        self.unimpl.add(line)
                        waiting.pop(line, None)
                    else:
                        _, kind, name = res
                        waiting[line] = (kind, name)
                        if kind == 'v':
                            if name not in self.fields:
                                sec, base = name.split('.')
                                self._load(sec)
                                if name not in self.fields:
                                    raise Abort('UnknownLine', name)
                            self._demand(name)
            for line, (kind, name) in waiting.items():
                if kind == 'v':
                    self.blocked.setdefault(name, set()).add(line)
                else:
                    self.needs.setdefault(name, set()).add(line)
        except Abort as a:
            self.abort = (a.cls, a.detail)
        return self

    def solved(self):
        return self.abort is None and not self.unimpl and not self.needs and not self.blocked

    def solution(self):
        """values rendered as the solver renders them"""
        out = {}
        for line, v in self.values.items():
            sec, k = line.split('.')
            out.setdefault(sec, {})[k] = self.fields[line].to_string(v)
        return out


def compare(result, ref):
    """compare an observed hv.world.Result with the reference fixed point.
    Returns list of (kind, message)."""
    errs = []
    if ref.abort is not None:
        if result.exc is None:
            errs.append(('returned-instead-of-abort', f'reference aborts with {ref.abort} but solve() returned {result.verdict}'))
        return errs
    if result.exc is not None:
        errs.append(('abort-instead-of-return', f'solve() raised {result.exc} but the reference has no abort point'))
        return errs
    if result.verdict is not True and result.verdict is not False:
        errs.append(('verdict-type', f'solve() returned {result.verdict!r}'))
    if bool(result.verdict) != ref.solved():
        errs.append(('verdict', f'solve()={result.verdict} reference solved={ref.solved()} '
                     f'(unimpl={sorted(ref.unimpl)} needs={sorted(ref.needs)} blocked={sorted(ref.blocked)})'))
    if set(result.unimpl) != ref.unimpl:
        errs.append(('unimplemented-set', f'reported {sorted(result.unimpl)} reference {sorted(ref.unimpl)}'))
    rn = {k: set(v) for k, v in result.need_inputs.items()}
    if rn != ref.needs:
        errs.append(('needed-inputs', f'reported {_s(rn)} reference {_s(ref.needs)}'))
    rb = {k: set(v) for k, v in result.blocked.items()}
    if rb != ref.blocked:
        errs.append(('blocked-lines', f'reported {_s(rb)} reference {_s(ref.blocked)}'))
    sol = ref.solution()
    if result.solution != sol:
        diff = []
        for sec in sorted(set(sol) | set(result.solution)):
            a, b = result.solution.get(sec, {}), sol.get(sec, {})
            for k in sorted(set(a) | set(b)):
                if a.get(k) != b.get(k):
                    diff.append(f'{sec}.{k}: solver={a.get(k)!r} reference={b.get(k)!r}')
        errs.append(('solution', '; '.join(diff[:6])))
    return errs


def _s(d):
    return {k: sorted(v) for k, v in sorted(d.items())}


# --------------------------------------------------------------------------
# re-evaluation of a returned solution on the final stores (C03 / C04 oracle)
def reevaluate(form_list, final_inputs, solution, extra_lines=()):
    """solution: {section: {key: string}} as returned by Solver.solution().
    Returns (ref, results) where results[line] = ('value', v, reads) | ('wait', kind, name, reads)
    | ('unimpl', reads) | ('raised', class, msg, reads) | ('abort', cls, detail, reads).
    Lines are evaluated against the *solution's* values, re-read through from_string."""
    ref = Ref(form_list, [], final_inputs)
    for sec in solution:
        f = ref._instantiate(sec)
        ref.spec_forms[sec] = f
        ref.forms[sec] = f
        for fld in f.fields():
            ref.fields[fld.name()] = fld
    parse_errors = {}
    for sec, kv in solution.items():
        for k, s in kv.items():
            line = f'{sec}.{k}'
            if line not in ref.fields:
                parse_errors[line] = 'no such line in the form'
                continue
            try:
                ref.values[line] = ref.fields[line].from_string(s)
            except Exception as e:
                parse_errors[line] = f'{type(e).__name__}: {e}'
    results = {}
    for line in list(ref.values) + [l for l in extra_lines if l not in ref.values]:
        results[line] = eval_line(ref, line)
    return ref, results, parse_errors


def eval_line(ref, line):
    if line not in ref.fields:
        sec = line.split('.')[0]
        try:
            if sec not in ref.forms:
                f = ref._instantiate(sec)
                ref.spec_forms.setdefault(sec, f)
                ref.forms[sec] = f
                for fld in f.fields():
                    ref.fields[fld.name()] = fld
        except Abort as a:
            return ('abort', a.cls, a.detail, [])
        if line not in ref.fields:
            return ('abort', 'UnknownLine', line, [])
    fld = ref.fields[line]
    reads = []
    try:
        val = fld.value(_IAcc(ref, fld.form(), reads), _VAcc(ref, fld.form(), reads))
    except _Unavailable as u:
        return ('wait', u.kind, u.name, reads)
    except hfields.FieldNotImplemented:
        return ('unimpl', reads)
    except Abort as a:
        return ('abort', a.cls, a.detail, reads)
    except RecursionError:
        return ('raised', 'RecursionError', '', reads)
    except Exception as e:
        return ('raised', type(e).__name__, str(e)[:200], reads)
    return ('value', val, reads)
