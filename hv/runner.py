"""Run bookkeeping: evidence, violations, replays, known findings, pools."""
import hashlib, json, multiprocessing, os, sys, time, traceback
from hv import VERIF, REPO

NCPU = min(16, os.cpu_count() or 1)


def jdefault(o):
    if isinstance(o, (set, frozenset)):
        return sorted(o, key=repr)
    if isinstance(o, tuple):
        return list(o)
    return repr(o)


def load_known():
    p = os.path.join(VERIF, 'known_findings.json')
    if not os.path.exists(p):
        return {'known': [], 'fixed': []}
    with open(p) as f:
        return json.load(f)


class Run(object):
    """One execution of one property check."""

    def __init__(self, pid, tier, level, rule):
        self.pid = pid
        self.tier = tier
        self.level = level
        self.seed = int(os.environ.get('VERIF_SEED', '0') or 0)
        self.rule = rule
        self.t0 = time.time()
        self.counters = {}
        self.samples = []
        self.distinct = set()
        self.distinct_n = None   # measured count, when tokens would be too many to keep
        self.evaluations = 0
        self.states = 0
        self.transitions = 0
        self.traces = 0
        self.exhaustive = None
        self.assumptions = []
        self.extra = {}
        self.violations = {}   # key -> case dict
        self.nviol = 0
        self.known = {k['key']: k for k in load_known()['known'] if k['property'] == pid}
        self.known_seen = {}
        self.harness_errors = []

    # -- accounting -----------------------------------------------------
    def count(self, name, n=1):
        self.counters[name] = self.counters.get(name, 0) + n

    def merge_counts(self, d):
        for k, v in d.items():
            self.count(k, v)

    def sample(self, obj, cap=6):
        if len(self.samples) < cap:
            self.samples.append(obj)

    def outcome(self, token):
        """register a distinct non-trivial outcome / case token"""
        self.distinct.add(token)

    # -- violations -----------------------------------------------------
    def violation(self, key, case, what):
        """key: finding key (stable, specific); case: replayable dict."""
        self.nviol += 1
        if key in self.known:
            self.known_seen.setdefault(key, what)
            return
        if key not in self.violations:
            self.violations[key] = dict(property=self.pid, key=key, what=what, case=case)

    def harness_error(self, msg):
        self.harness_errors.append(msg)

    # -- finish -----------------------------------------------------------
    def finish(self):
        wall = time.time() - self.t0
        cov = dict(
            evaluations=int(self.evaluations),
            distinct_nontrivial=(self.distinct_n if self.distinct_n is not None else len(self.distinct)),
            rule=self.rule,
            samples=self.samples or ['(none)'],
            counters=self.counters,
        )
        if self.level == 'model_checking':
            cov.update(states=int(self.states), transitions=int(self.transitions),
                       traces_validated_against_impl=int(self.traces))
        if self.exhaustive is not None:
            cov['exhaustive'] = bool(self.exhaustive)
        cov.update(self.extra)
        ev = dict(property_id=self.pid, tier=self.tier, seed=self.seed, level=self.level,
                  coverage=cov, assumptions=self.assumptions, wall_s=round(wall, 3),
                  violations=len(self.violations),
                  known_findings_seen=sorted(self.known_seen),
                  repo=REPO)
        os.makedirs(os.path.join(VERIF, 'evidence'), exist_ok=True)
        path = os.path.join(VERIF, 'evidence', f'{self.pid}.json')
        if os.environ.get('HV_REPO'):
            path = os.environ.get('HV_EVIDENCE', '/dev/null')
        with open(path, 'w') as f:
            json.dump(ev, f, indent=1, default=jdefault, sort_keys=True)
        for key in sorted(self.known_seen):
            print(f'KNOWN-FINDING: property={self.pid} {key} :: {self.known[key].get("what", "")}')
        for m in self.harness_errors:
            print(f'HARNESS-ERROR: {m}', file=sys.stderr)
        rc = 0
        rdir = os.path.join(VERIF, 'replays', self.pid)
        if os.environ.get('HV_REPO'):
            rdir = os.path.join(os.environ.get('HV_REPLAYS', '/tmp/hv_replays'), self.pid)
        for key in sorted(self.violations)[:25]:
            v = self.violations[key]
            os.makedirs(rdir, exist_ok=True)
            sha = hashlib.sha1(key.encode()).hexdigest()[:12]
            rp = os.path.join(rdir, f'{sha}.json')
            with open(rp, 'w') as f:
                json.dump(v, f, indent=1, default=jdefault, sort_keys=True)
            print(f'VIOLATION property={self.pid} replay={rp}')
            print(f'  key={key}\n  what={str(v["what"])[:600]}')
            rc = 1
        if len(self.violations) > 25:
            print(f'  ... {len(self.violations) - 25} more distinct violation keys not written')
        print(f'[{self.pid}] tier={self.tier} seed={self.seed} evaluations={self.evaluations} '
              f'distinct={self.distinct_n if self.distinct_n is not None else len(self.distinct)} states={self.states} transitions={self.transitions} '
              f'violations={len(self.violations)} known={len(self.known_seen)} wall={wall:.1f}s')
        if self.harness_errors:
            rc = rc or 2
        return rc


def rotate(seq, seed):
    seq = list(seq)
    if not seq:
        return seq
    k = seed % len(seq)
    return seq[k:] + seq[:k]


_POOL_FN = None


def _pool_call(arg):
    try:
        return ('ok', _POOL_FN(arg))
    except Exception:
        return ('err', traceback.format_exc())


def pmap(fn, items, chunksize=None, procs=None):
    """ordered parallel map with fork workers; raises on worker exception."""
    global _POOL_FN
    items = list(items)
    procs = procs or NCPU
    if procs <= 1 or len(items) <= 1 or os.environ.get('HV_SERIAL'):
        return [fn(x) for x in items]
    _POOL_FN = fn
    ctx = multiprocessing.get_context('fork')
    if chunksize is None:
        chunksize = max(1, len(items) // (procs * 8))
    with ctx.Pool(procs) as pool:
        out = []
        for st, r in pool.imap(_pool_call, items, chunksize):
            if st == 'err':
                raise RuntimeError('worker failed:\n' + r)
            out.append(r)
    return out
