"""Independent table of statutory amounts, tax years 2021-2023.

Sources (written from the publications, NOT from the code under test):
  2021: Rev. Proc. 2020-45 sec. 3.01 (rate tables), sec. 3.15 (standard deduction)
  2022: Rev. Proc. 2021-45 sec. 3.01, sec. 3.15
  2023: Rev. Proc. 2022-38 sec. 3.01, sec. 3.15
  Form 1040 instructions (Tax Table, Tax Computation Worksheet) for the
  presentation rules: the Tax Table (taxable income under $100,000) lists the
  tax at the midpoint of each row, rounded to whole dollars; at or above
  $100,000 the Tax Computation Worksheet is `amount x rate - constant`, which
  is algebraically the bracket formula.

All arithmetic is exact (fractions.Fraction); rates are hundredths.
"""
from fractions import Fraction
import math

YEARS = (2021, 2022, 2023)
BASE_STATUSES = ('Single', 'MarriedFilingJointly', 'MarriedFilingSeparately', 'HeadOfHousehold')
# surviving spouse uses the joint-return schedule (IRC sec. 1(a))
ALIASES = {
    'QualifyingSurvivingSpouse': 'MarriedFilingJointly',
    'QualifyingWidowWidower': 'MarriedFilingJointly',
}

RATES = (10, 12, 22, 24, 32, 35, 37)   # percent; TCJA schedule, same for all three years

# lower bound of each of the seven brackets (the first is always 0)
_LOWER = {
    2021: {
        'Single':                  (0, 9950, 40525, 86375, 164925, 209425, 523600),
        'MarriedFilingJointly':    (0, 19900, 81050, 172750, 329850, 418850, 628300),
        'MarriedFilingSeparately': (0, 9950, 40525, 86375, 164925, 209425, 314150),
        'HeadOfHousehold':         (0, 14200, 54200, 86350, 164900, 209400, 523600),
    },
    2022: {
        'Single':                  (0, 10275, 41775, 89075, 170050, 215950, 539900),
        'MarriedFilingJointly':    (0, 20550, 83550, 178150, 340100, 431900, 647850),
        'MarriedFilingSeparately': (0, 10275, 41775, 89075, 170050, 215950, 323925),
        'HeadOfHousehold':         (0, 14650, 55900, 89050, 170050, 215950, 539900),
    },
    2023: {
        'Single':                  (0, 11000, 44725, 95375, 182100, 231250, 578125),
        'MarriedFilingJointly':    (0, 22000, 89450, 190750, 364200, 462500, 693750),
        'MarriedFilingSeparately': (0, 11000, 44725, 95375, 182100, 231250, 346875),
        'HeadOfHousehold':         (0, 15700, 59850, 95350, 182100, 231250, 578100),
    },
}

STANDARD_DEDUCTION = {
    2021: {'Single': 12550, 'MarriedFilingJointly': 25100, 'MarriedFilingSeparately': 12550, 'HeadOfHousehold': 18800},
    2022: {'Single': 12950, 'MarriedFilingJointly': 25900, 'MarriedFilingSeparately': 12950, 'HeadOfHousehold': 19400},
    2023: {'Single': 13850, 'MarriedFilingJointly': 27700, 'MarriedFilingSeparately': 13850, 'HeadOfHousehold': 20800},
}

# additional standard deduction for age 65+/blind, per condition
ADDITIONAL_STANDARD_DEDUCTION = {
    2021: {'married': 1350, 'unmarried': 1700},
    2022: {'married': 1400, 'unmarried': 1750},
    2023: {'married': 1500, 'unmarried': 1850},
}

TABLE_LIMIT = 100000          # Tax Table covers taxable income below this
TOP_RATE = Fraction(37, 100)


def canonical(status_name):
    s = str(status_name)
    s = ALIASES.get(s, s)
    if s not in BASE_STATUSES:
        raise KeyError(status_name)
    return s


def brackets(year, status_name):
    """list of (lower_bound, rate) with rate a Fraction"""
    lows = _LOWER[year][canonical(status_name)]
    return [(lo, Fraction(r, 100)) for lo, r in zip(lows, RATES)]


def standard_deduction(year, status_name):
    return STANDARD_DEDUCTION[year][canonical(status_name)]


def _frac(x):
    if isinstance(x, Fraction):
        return x
    if isinstance(x, int):
        return Fraction(x)
    # floats carrying cents: take the nearest 1/10000 so 100000.01 means exactly that
    return Fraction(round(x * 10000), 10000)


def tax_formula(year, status_name, x):
    """exact bracket formula: sum over brackets of rate x (part of x inside the bracket)"""
    x = _frac(x)
    if x <= 0:
        return Fraction(0)
    br = brackets(year, status_name)
    total = Fraction(0)
    for i, (lo, rate) in enumerate(br):
        hi = br[i + 1][0] if i + 1 < len(br) else None
        if x <= lo:
            break
        top = x if hi is None or x < hi else hi
        total += rate * (top - lo)
    return total


def worksheet_rows(year, status_name):
    """Tax Computation Worksheet rows implied by the brackets:
    list of (lower, upper_or_None, rate, subtraction_constant) for amounts >= 100000,
    tax = amount*rate - constant."""
    br = brackets(year, status_name)
    out = []
    for i, (lo, rate) in enumerate(br):
        hi = br[i + 1][0] if i + 1 < len(br) else None
        if hi is not None and hi <= TABLE_LIMIT:
            continue
        sub = rate * lo - tax_formula(year, status_name, lo)
        out.append((max(lo, TABLE_LIMIT), hi, rate, sub))
    return out


def table_row(x):
    """(low, high) of the Tax Table row containing x, 0 <= x < 100000"""
    if x < 0 or x >= TABLE_LIMIT:
        raise ValueError(x)
    n = math.floor(x)
    if n < 5:
        return (0, 5)
    if n < 15:
        return (5, 15)
    if n < 25:
        return (15, 25)
    if n < 3000:
        lo = n - n % 25
        return (lo, lo + 25)
    lo = n - n % 50
    return (lo, lo + 50)


def table_rows():
    """all Tax Table rows in order"""
    rows = [(0, 5), (5, 15), (15, 25)]
    rows += [(lo, lo + 25) for lo in range(25, 3000, 25)]
    rows += [(lo, lo + 50) for lo in range(3000, TABLE_LIMIT, 50)]
    return rows


def round_half_up(q, places=0):
    q = Fraction(q) * 10 ** places
    n = math.floor(q + Fraction(1, 2))
    return n if places == 0 else Fraction(n, 10 ** places)


def table_tax(year, status_name, x):
    lo, hi = table_row(x)
    if lo == 0:
        return 0
    mid = Fraction(lo + hi, 2)
    return int(round_half_up(tax_formula(year, status_name, mid)))


def expected_tax(year, status_name, x):
    """what Form 1040 line 16 should be for taxable income x (ordinary rates only)"""
    if x < TABLE_LIMIT:
        return table_tax(year, status_name, x)
    return round_half_up(tax_formula(year, status_name, x), 2)


def table_step(year, status_name):
    """largest possible jump between two adjacent Tax Table rows (and from the last
    row to the worksheet): 50 x the highest rate reached below/at 100000, plus 1 for rounding"""
    rate = max(r for lo, r in brackets(year, status_name) if lo <= TABLE_LIMIT)
    return 50 * rate + 1
