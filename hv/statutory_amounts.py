"""Independent table of year- and status-indexed statutory amounts, tax years 2021-2023 (property C08).

Written from the official publications, NOT from the code under test.  Every entry carries its
citation.  The bracket tables and the federal standard deduction already live in hv.statutory
(imported, and cross-checked against the copy below by `self_check`).

    AMOUNTS[year][name] -> value            (same for every filing status)
                        -> {status: value}  (five statuses of that year)

Statuses: Single, MarriedFilingJointly, MarriedFilingSeparately, HeadOfHousehold and
QualifyingWidowWidower (2021) / QualifyingSurvivingSpouse (2022, 2023).

Main sources
  RP20-45  Rev. Proc. 2020-45 (inflation adjustments for 2021)
  RP21-45  Rev. Proc. 2021-45 (for 2022)
  RP22-38  Rev. Proc. 2022-38 (for 2023)
  ARPA     American Rescue Plan Act of 2021, P.L. 117-2 (2021 child tax credit, childless EIC,
           EIC investment income, recovery rebate)
  i1040    Instructions for Form 1040 of the year (worksheets quoted by line)
  NC       N.C. G.S. 105-153.5 / 105-153.7 as amended by S.L. 2021-180; Form D-400 / D-400 Schedule A /
           D-401 instruction booklet of the year
"""
from fractions import Fraction

from hv import statutory as S

YEARS = (2021, 2022, 2023)
SURVIVOR = {2021: 'QualifyingWidowWidower', 2022: 'QualifyingSurvivingSpouse', 2023: 'QualifyingSurvivingSpouse'}


def statuses(year):
    return ('Single', 'MarriedFilingJointly', 'MarriedFilingSeparately', 'HeadOfHousehold', SURVIVOR[year])


def _st(year, single, mfj, mfs, hoh, qss):
    return dict(zip(statuses(year), (single, mfj, mfs, hoh, qss)))


def _joint_else(year, joint, other):
    """amount for a joint return only; the surviving spouse is NOT a joint return"""
    return _st(year, other, joint, other, other, other)


PCT = lambda n, d=100: Fraction(n, d)

# N.C. child deduction (G.S. 105-153.5(a1)): (AGI up to and including, deduction per child); above the last -> 0
_NC_CHILD_2021 = {   # 2021 D-400 instructions, line 10b "Child Deduction Table"
    'joint': ((40000, 2500), (60000, 2000), (80000, 1500), (100000, 1000), (120000, 500)),
    'hoh':   ((30000, 2500), (45000, 2000), (60000, 1500), (75000, 1000), (90000, 500)),
    'other': ((20000, 2500), (30000, 2000), (40000, 1500), (50000, 1000), (60000, 500)),
}
_NC_CHILD_2022 = {   # S.L. 2021-180 sec. 42.1.(b), effective for 2022: +$500 per tier and one more tier
    'joint': ((40000, 3000), (60000, 2500), (80000, 2000), (100000, 1500), (120000, 1000), (140000, 500)),
    'hoh':   ((30000, 3000), (45000, 2500), (60000, 2000), (75000, 1500), (90000, 1000), (105000, 500)),
    'other': ((20000, 3000), (30000, 2500), (40000, 2000), (50000, 1500), (60000, 1000), (70000, 500)),
}


def _nc_child(year, t):
    return _st(year, t['other'], t['joint'], t['other'], t['hoh'], t['joint'])


# N.C. Consumer Use Tax Table (D-401 instructions, line 18; identical in the three years):
# N.C. taxable income "at least / but less than" -> use tax; 0.0675% of income at $45,200 and over.
NC_USE_TAX_TABLE = (
    (2200, 1), (3700, 2), (5200, 3), (6700, 4), (8100, 5), (9600, 6), (11100, 7), (12600, 8), (14100, 9), (15600, 10),
    (17000, 11), (18500, 12), (20000, 13), (21500, 14), (23000, 15), (24400, 16), (25900, 17), (27400, 18), (28900, 19),
    (30400, 20), (31900, 21), (33300, 22), (34800, 23), (36300, 24), (37800, 25), (39300, 26), (40700, 27), (42200, 28),
    (43700, 29), (45200, 30))
NC_USE_TAX_RATE = Fraction(675, 1000000)


def _common(year):
    """amounts that the law does not index (same in the three years)"""
    return {
        # Schedule B: required when taxable interest / ordinary dividends are over $1,500 (i1040 lines 2b, 3b)
        'sched_b_interest_threshold': 1500,
        'sched_b_dividend_threshold': 1500,
        # IRC 904(j): election not to file Form 1116 when foreign taxes are not more than $300 ($600 joint return)
        # (Schedule 3 line 1 instructions)
        'form_1116_foreign_tax_limit': _joint_else(year, 600, 300),
        # IRC 164(b)(6): state and local tax deduction limit (Schedule A line 5e, printed on the form)
        'salt_cap': _st(year, 10000, 10000, 5000, 10000, 10000),
        # IRC 213(a): medical expenses over 7.5% of AGI (Schedule A line 3)
        'medical_agi_floor_rate': PCT(75, 1000),
        # Schedule A line 12: Form 8283 required when noncash gifts are over $500
        'form_8283_threshold': 500,
        # IRC 24(h): $2,000 per qualifying child / $500 other dependent; phase-out from $400,000 (joint) /
        # $200,000 (all others, surviving spouse included), $50 per $1,000 (Schedule 8812 lines 5, 7, 9, 11)
        'odc_per_dependent': 500,
        'ctc_phaseout_start': _joint_else(year, 400000, 200000),
        'ctc_phaseout_rate': PCT(5),
        # IRC 3101(b)(2) / Form 8959 lines 5, 9, 15 (printed on the form); employer withholds over $200,000
        'addl_medicare_threshold': _st(year, 200000, 250000, 125000, 200000, 200000),
        'addl_medicare_withholding_threshold': 200000,
        'addl_medicare_rate': PCT(9, 1000),         # Form 8959 lines 7, 13, 17
        'medicare_rate': PCT(145, 10000),           # Form 8959 line 21
        # IRC 1(h): 15% / 20% (Qualified Dividends and Capital Gain Tax Worksheet lines 18, 21)
        'capgain_rate_15': PCT(15),
        'capgain_rate_20': PCT(20),
        # IRC 55(b)(1), 55(d)(2): 26% first AMT rate; exemption reduced by 25% of the excess
        # (Worksheet To See if You Should Fill in Form 6251, lines 10 and 12)
        'amt_rate_26': PCT(26),
        'amt_exemption_phaseout_rate': PCT(25),
        # IRC 199A: 20% (Form 8995 lines 5, 9, 14)
        'qbi_rate': PCT(20),
        # IRC 6654(e)(1) and i1040 line 38: penalty possible when line 37 is at least $1,000 and more than 10% of the tax
        'underpayment_penalty_floor': 1000,
        'underpayment_penalty_pct': PCT(10),
        # N.C. D-400 Schedule A line 4 (printed): mortgage interest + real estate taxes limited to $20,000 (G.S. 105-153.5(a)(2)b)
        'nc_mortgage_property_tax_cap': 20000,
        # D-400 Schedule A line 2 instructions: real estate taxes as allowed under IRC 164, i.e. not over $10,000 ($5,000 MFS)
        'nc_real_estate_tax_limit': _st(year, 10000, 10000, 5000, 10000, 10000),
        # D-400 Schedule A line 7c (printed): 7.5% (0.075) of federal AGI
        'nc_medical_agi_floor_rate': PCT(75, 1000),
        # D-400 Schedule A line 6 instructions: cash gifts limited to 60% of AGI (IRC 170(b)(1)(G) as adopted by N.C.)
        'nc_charitable_agi_pct': PCT(60),
        # D-401 line 18 Consumer Use Tax Table
        'nc_use_tax_table': NC_USE_TAX_TABLE,
        'nc_use_tax_rate': NC_USE_TAX_RATE,
        # D-400 line 26e / Form D-422: interest on underpayment of estimated tax when tax due is $1,000 or more
        'nc_underpayment_floor': 1000,
    }


AMOUNTS = {}

# ----------------------------------------------------------------------------------------------- 2021
AMOUNTS[2021] = dict(_common(2021), **{
    # RP20-45 sec. 3.15; printed on Form 1040 line 12a
    'standard_deduction': _st(2021, 12550, 25100, 12550, 18800, 25100),
    # RP20-45 sec. 3.03 maximum zero rate amount / maximum 15-percent rate amount (QDCG worksheet lines 6, 13)
    'qdcg_zero_rate_max': _st(2021, 40400, 80800, 40400, 54100, 80800),
    'qdcg_15_rate_max': _st(2021, 445850, 501600, 250800, 473750, 501600),
    # RP20-45 sec. 3.11 AMT exemption, phase-out threshold, 28% breakpoint (6251 worksheet lines 6, 8, 12)
    'amt_exemption': _st(2021, 73600, 114600, 57300, 73600, 114600),
    'amt_phaseout_start': _st(2021, 523600, 1047200, 523600, 523600, 1047200),
    'amt_28pct_breakpoint': _st(2021, 199900, 199900, 99950, 199900, 199900),
    # Notice 2020-79 (saver's credit AGI limits; Schedule 3 line 4 instructions)
    'saver_credit_agi_limit': _st(2021, 33000, 66000, 33000, 49500, 33000),
    # ARPA sec. 9611: $3,600 under 6, $3,000 age 6-17, over the regular $2,000; first phase-out from
    # $150,000 joint or surviving spouse / $112,500 head of household / $75,000 others
    # (2021 Schedule 8812 instructions, Line 5 Worksheet lines 1, 2, 4, 6, 8)
    'ctc_per_child': 2000,
    'ctc2021_under6': 3600,
    'ctc2021_6to17': 3000,
    'ctc2021_first_phaseout_start': _st(2021, 75000, 150000, 75000, 112500, 150000),
    'ctc2021_ws_line6': _st(2021, 6250, 12500, 6250, 4375, 2500),
    # 2021 Schedule 8812 line 33 (printed), line 37: repayment protection
    'ctc2021_repayment_protection_agi': _st(2021, 40000, 60000, 40000, 50000, 60000),
    'ctc2021_repayment_protection_per_child': 2000,
    # Rev. Proc. 2020-32; printed on Form 8889 line 3
    'hsa_limit_self': 3600,
    'hsa_limit_family': 7200,
    # RP20-45 sec. 3.27 (IRC 199A(e)(2)); printed on Form 8995
    'qbi_threshold': _st(2021, 164900, 329800, 164925, 164900, 164900),
    # 2021 i1040 line 27 (RP20-45 sec. 3.06; ARPA sec. 9621 for no children; ARPA sec. 9624 investment income)
    'eic_agi_limit_0': _joint_else(2021, 27380, 21430),
    'eic_agi_limit_1': _joint_else(2021, 48108, 42158),
    'eic_agi_limit_2': _joint_else(2021, 53865, 47915),
    'eic_agi_limit_3': _joint_else(2021, 57414, 51464),
    'eic_investment_income_limit': 10000,
    # IRC 62(a)(2)(D), RP20-45 sec. 3.12: $250 per educator (at most two on a joint return)
    'educator_expense_limit': _joint_else(2021, 500, 250),
    # IRC 170(p) (2021 only), Form 1040 line 12b: $300 ($600 joint return)
    'charitable_std_ded_max': _joint_else(2021, 600, 300),
    # ARPA sec. 9601 / 2021 i1040 Recovery Rebate Credit Worksheet lines 6-7, 9, 10, 11
    'rrc_per_person': 1400,
    'rrc_line6': _st(2021, 1400, 2800, 1400, 1400, 1400),
    'rrc_phaseout_start': _st(2021, 75000, 150000, 75000, 112500, 150000),
    'rrc_phaseout_end': _st(2021, 80000, 160000, 80000, 120000, 160000),
    'rrc_phaseout_divisor': _st(2021, 5000, 10000, 5000, 7500, 10000),
    # IRC 163(h)(3)(E); 2021 Schedule A line 8d instructions: limited when AGI is over $100,000 ($50,000 MFS)
    'mortgage_insurance_agi_limit': _st(2021, 100000, 100000, 50000, 100000, 100000),
    # N.C. G.S. 105-153.7 (2021: 5.25%); D-400 line 15
    'nc_tax_rate': PCT(525, 10000),
    # G.S. 105-153.5(a)(1) (2021); printed on D-400 Schedule A
    'nc_standard_deduction': _st(2021, 10750, 21500, 10750, 16125, 21500),
    'nc_child_deduction_table': _nc_child(2021, _NC_CHILD_2021),
})

# ----------------------------------------------------------------------------------------------- 2022
AMOUNTS[2022] = dict(_common(2022), **{
    # RP21-45 sec. 3.15
    'standard_deduction': _st(2022, 12950, 25900, 12950, 19400, 25900),
    # RP21-45 sec. 3.03
    'qdcg_zero_rate_max': _st(2022, 41675, 83350, 41675, 55800, 83350),
    'qdcg_15_rate_max': _st(2022, 459750, 517200, 258600, 488500, 517200),
    # RP21-45 sec. 3.11
    'amt_exemption': _st(2022, 75900, 118100, 59050, 75900, 118100),
    'amt_phaseout_start': _st(2022, 539900, 1079800, 539900, 539900, 1079800),
    'amt_28pct_breakpoint': _st(2022, 206100, 206100, 103050, 206100, 206100),
    # Notice 2021-61
    'saver_credit_agi_limit': _st(2022, 34000, 68000, 34000, 51000, 34000),
    # IRC 24(h)(2), 24(h)(5) with RP21-45 sec. 3.05: $2,000 per child, refundable part up to $1,500
    'ctc_per_child': 2000,
    'actc_per_child': 1500,
    # Rev. Proc. 2021-25
    'hsa_limit_self': 3650,
    'hsa_limit_family': 7300,
    # RP21-45 sec. 3.27; Form 8995 (2022)
    'qbi_threshold': _joint_else(2022, 340100, 170050),
    # 2022 i1040 line 27 (RP21-45 sec. 3.06)
    'eic_agi_limit_0': _joint_else(2022, 22610, 16480),
    'eic_agi_limit_1': _joint_else(2022, 49622, 43492),
    'eic_agi_limit_2': _joint_else(2022, 55529, 49399),
    'eic_agi_limit_3': _joint_else(2022, 59187, 53057),
    'eic_investment_income_limit': 10300,
    # RP21-45 sec. 3.12: $300 per educator
    'educator_expense_limit': _joint_else(2022, 600, 300),
    # G.S. 105-153.7 (2022: 4.99%)
    'nc_tax_rate': PCT(499, 10000),
    # S.L. 2021-180 sec. 42.1.(a), effective 2022
    'nc_standard_deduction': _st(2022, 12750, 25500, 12750, 19125, 25500),
    'nc_child_deduction_table': _nc_child(2022, _NC_CHILD_2022),
})

# ----------------------------------------------------------------------------------------------- 2023
AMOUNTS[2023] = dict(_common(2023), **{
    # RP22-38 sec. 3.15
    'standard_deduction': _st(2023, 13850, 27700, 13850, 20800, 27700),
    # RP22-38 sec. 3.03
    'qdcg_zero_rate_max': _st(2023, 44625, 89250, 44625, 59750, 89250),
    'qdcg_15_rate_max': _st(2023, 492300, 553850, 276900, 523050, 553850),
    # RP22-38 sec. 3.11
    'amt_exemption': _st(2023, 81300, 126500, 63250, 81300, 126500),
    'amt_phaseout_start': _st(2023, 578150, 1156300, 578150, 578150, 1156300),
    'amt_28pct_breakpoint': _st(2023, 220700, 220700, 110350, 220700, 220700),
    # Notice 2022-55
    'saver_credit_agi_limit': _st(2023, 36500, 73000, 36500, 54750, 36500),
    # RP22-38 sec. 3.05: refundable part up to $1,600
    'ctc_per_child': 2000,
    'actc_per_child': 1600,
    # Rev. Proc. 2022-24
    'hsa_limit_self': 3850,
    'hsa_limit_family': 7750,
    # RP22-38 sec. 3.27; Form 8995 (2023)
    'qbi_threshold': _joint_else(2023, 364200, 182100),
    # 2023 i1040 line 27 (RP22-38 sec. 3.06)
    'eic_agi_limit_0': _joint_else(2023, 24210, 17640),
    'eic_agi_limit_1': _joint_else(2023, 53120, 46560),
    'eic_agi_limit_2': _joint_else(2023, 59478, 52918),
    'eic_agi_limit_3': _joint_else(2023, 63398, 56838),
    'eic_investment_income_limit': 11000,
    # RP22-38 sec. 3.12
    'educator_expense_limit': _joint_else(2023, 600, 300),
    # G.S. 105-153.7 (2023: 4.75%)
    'nc_tax_rate': PCT(475, 10000),
    'nc_standard_deduction': _st(2023, 12750, 25500, 12750, 19125, 25500),
    'nc_child_deduction_table': _nc_child(2023, _NC_CHILD_2022),
})


def value(year, name, status):
    v = AMOUNTS[year][name]
    if isinstance(v, dict):
        return v[status]
    return v


def status_indexed(year, name):
    return isinstance(AMOUNTS[year][name], dict)


def triples():
    """every (year, status, name) of the table"""
    for year in YEARS:
        for name in sorted(AMOUNTS[year]):
            for st in statuses(year):
                yield year, st, name


def self_check():
    """internal consistency of the table and agreement with hv.statutory; list of problems"""
    bad = []
    for year in YEARS:
        for st in statuses(year):
            if value(year, 'standard_deduction', st) != S.standard_deduction(year, st):
                bad.append(f'{year} {st}: standard deduction differs from hv.statutory')
        a = AMOUNTS[year]
        # 28% AMT breakpoint for MFS is half the others (IRC 55(b)(1)(A)(ii))
        if a['amt_28pct_breakpoint']['MarriedFilingSeparately'] * 2 != a['amt_28pct_breakpoint']['Single']:
            bad.append(f'{year}: AMT breakpoint MFS is not half')
        if a['amt_exemption']['MarriedFilingSeparately'] * 2 != a['amt_exemption']['MarriedFilingJointly']:
            bad.append(f'{year}: AMT exemption MFS is not half of joint')
        if a['qdcg_zero_rate_max']['Single'] * 2 != a['qdcg_zero_rate_max']['MarriedFilingJointly']:
            bad.append(f'{year}: zero rate amount single is not half of joint')
        # (each status is rounded separately: 2023 is 276,900 against 553,850)
        if abs(a['qdcg_15_rate_max']['MarriedFilingSeparately'] * 2 - a['qdcg_15_rate_max']['MarriedFilingJointly']) > 50:
            bad.append(f'{year}: 15% rate amount MFS is not half of joint')
        if a['hsa_limit_self'] * 2 > a['hsa_limit_family'] + 100 or a['hsa_limit_family'] > a['hsa_limit_self'] * 2 + 100:
            bad.append(f'{year}: HSA limits implausible')
        # the use tax table is the rate applied to each band's midpoint, rounded to a dollar
        lo = 0
        for hi, tax in NC_USE_TAX_TABLE:
            mid = Fraction(lo + hi, 2) * NC_USE_TAX_RATE
            if abs(mid - tax) > Fraction(55, 100):
                bad.append(f'use tax table row {lo}-{hi}: {tax} vs {float(mid):.2f}')
            lo = hi
    # 2021 worksheet line 6 = 5% of (second phase-out start - first phase-out start)
    a = AMOUNTS[2021]
    for st in statuses(2021):
        if a['ctc2021_ws_line6'][st] * 20 != a['ctc_phaseout_start'][st] - a['ctc2021_first_phaseout_start'][st]:
            bad.append(f'2021 {st}: Line 5 Worksheet line 6 is not 5% of the gap between the phase-out starts')
        if a['rrc_phaseout_end'][st] - a['rrc_phaseout_start'][st] != a['rrc_phaseout_divisor'][st]:
            bad.append(f'2021 {st}: recovery rebate divisor is not end - start')
    return bad
