"""World: running the real Solver under harness control.

* instrumented form classes (subclasses of the shipped ones) that log every
  attempt of every line with the inputs/lines it read;
* an InputStore over a ConfigParser the harness owns;
* a prompt callback driven by an answer function;
* rank functions installed through the HABUTAX_VERIF hook;
* canonical outcomes.
"""
import configparser
import itertools
from collections.abc import Mapping

import hv
import habutax
from habutax import solver as hsolver, inputs as hinputs, values as hvalues, fields as hfields, form as hform
from habutax.forms import available_forms

assert hsolver._VERIF, 'HABUTAX_VERIF=1 must be exported (use ./check)'
YEARS = sorted(available_forms)


class NonTermination(Exception):
    pass


# --------------------------------------------------------------------------
# attempt logging
class Attempt(object):
    __slots__ = ('line', 'reads', 'outcome')

    def __init__(self, line):
        self.line = line
        self.reads = []      # (kind 'i'|'v', full name, 'ok'|exception class name, value)
        self.outcome = None  # ('value', v) | ('exc', class name, detail)

    def as_json(self):
        return dict(line=self.line, reads=[list(map(repr, r)) for r in self.reads], outcome=repr(self.outcome))


class Membership(object):
    """what a logged `name in accessor` saw (not the value of the name)"""
    __slots__ = ('result',)

    def __init__(self, result):
        self.result = result

    def __repr__(self):
        return f'in:{self.result}'


class LogAccessor(Mapping):
    def __init__(self, inner, form, kind, rec):
        self.inner, self.form, self.kind, self.rec = inner, form, kind, rec

    def __getitem__(self, key):
        full = key if '.' in key else f'{self.form.name()}.{key}'
        try:
            val = self.inner[key]
        except BaseException as e:
            self.rec.reads.append((self.kind, full, type(e).__name__, None))
            raise
        self.rec.reads.append((self.kind, full, 'ok', val))
        return val

    # membership and get() are asked of the real accessor, not re-derived from __getitem__ here: an accessor that
    # answers them in its own way must be seen doing so
    def __contains__(self, key):
        full = key if '.' in key else f'{self.form.name()}.{key}'
        try:
            r = key in self.inner
        except BaseException as e:
            self.rec.reads.append((self.kind, full, type(e).__name__, None))
            raise
        self.rec.reads.append((self.kind, full, 'ok' if r else 'absent', Membership(r)))
        return r

    def get(self, key, default=None):
        full = key if '.' in key else f'{self.form.name()}.{key}'
        try:
            r = self.inner.get(key, default)
        except BaseException as e:
            self.rec.reads.append((self.kind, full, type(e).__name__, None))
            raise
        self.rec.reads.append((self.kind, full, 'ok', r))
        return r

    def __iter__(self):
        return iter(self.inner)

    def __len__(self):
        return len(self.inner)


SOLVE_CPU_SECONDS = 60      # processor time one solve() may use (the largest base return needs about 3 s)


class cpu_limit(object):
    """a solve that spins without attempting a line or asking anything (so that neither the attempt counter nor the prompt
    counter sees it) is cut off after SOLVE_CPU_SECONDS of processor time and reported as non-termination"""

    def __init__(self, seconds=None):
        self.seconds = seconds or SOLVE_CPU_SECONDS

    def __enter__(self):
        import signal, threading
        self.on = threading.current_thread() is threading.main_thread()
        if self.on:
            def fire(signum, frame):
                raise NonTermination(f'solve() used more than {self.seconds} s of processor time')
            self.old = signal.signal(signal.SIGVTALRM, fire)
            signal.setitimer(signal.ITIMER_VIRTUAL, self.seconds)
        return self

    def __exit__(self, *a):
        import signal
        if self.on:
            signal.setitimer(signal.ITIMER_VIRTUAL, 0)
            signal.signal(signal.SIGVTALRM, self.old)
        return False


RUNAWAY = 400       # attempts of one line in one solve (the C06 bound, 1 + distinct waits, is far below this)


def _wrap_field(f, log, counts=None):
    orig = f.value

    def value(inputs, values):
        if counts is not None:
            n = counts[f.name()] = counts.get(f.name(), 0) + 1
            if n > RUNAWAY:
                # BaseException-proof: nothing in the solver catches this class
                raise NonTermination(f'{f.name()} attempted {n} times in one solve')
        rec = Attempt(f.name())
        log.append(rec)
        li = LogAccessor(inputs, f.form(), 'i', rec)
        lv = LogAccessor(values, f.form(), 'v', rec)
        try:
            r = orig(li, lv)
        except BaseException as e:
            rec.outcome = ('exc', type(e).__name__, str(e)[:200])
            raise
        rec.outcome = ('value', r)
        return r
    f.value = value


_INSTR_CACHE = {}


def instrumented(form_list, log):
    """subclasses of the given form classes whose fields log into `log` (a list).
    The log list is looked up through a holder so classes can be cached."""
    key = tuple(form_list)
    if key not in _INSTR_CACHE:
        holder = {'log': None, 'counts': None}
        out = []
        for C in form_list:
            def __init__(self, _C=C, _holder=holder, **kw):
                _C.__init__(self, **kw)
                lg = _holder['log']
                if lg is not None:
                    for f in self.fields():
                        _wrap_field(f, lg, _holder['counts'])
            W = type(C.__name__, (C,), {'__init__': __init__})
            out.append(W)
        _INSTR_CACHE[key] = (holder, out)
    holder, out = _INSTR_CACHE[key]
    holder['log'] = log
    holder['counts'] = {}
    return out


# --------------------------------------------------------------------------
# schedules (rank functions through the hook)
def natural_key(key):
    if '.' in key:
        f, k = key.split('.')
    else:
        f, k = '', key
    return (hsolver._sort_keys(f), hsolver._sort_keys(k))


class RankKey(object):
    """sort key that records every comparison made by a sort"""
    __slots__ = ('name', 'k', 'log')

    def __init__(self, name, k, log):
        self.name, self.k, self.log = name, k, log

    def __lt__(self, other):
        if self.log is not None:
            self.log.add((self.name, other.name) if self.name < other.name else (other.name, self.name))
        return self.k < other.k

    def __eq__(self, other):
        return self.k == other.k


class Schedule(object):
    """rank function: names listed in `order` come first, in that order; the rest
    follow in natural order.  kind: 'natural', 'perm', 'reversed', 'hash:<salt>',
    'rot:<k>' ..."""

    def __init__(self, kind='natural', order=None, universe=None, salt=0):
        self.kind, self.order, self.salt = kind, order, salt
        self.pos = {n: i for i, n in enumerate(order or [])}
        self.compared = set()
        self.seen = set()

    def __call__(self, name):
        self.seen.add(name)
        nk = natural_key(name)
        if self.kind == 'natural':
            k = (1, 0, nk)
        elif self.kind == 'perm':
            k = (0, self.pos[name], ()) if name in self.pos else (1, 0, nk)
        elif self.kind == 'last':      # the listed names sort after everything else
            k = (2, self.pos[name], ()) if name in self.pos else (1, 0, nk)
        elif self.kind == 'reversed':
            k = (0, _Rev(nk), ())
        elif self.kind == 'formrev':   # forms reversed, lines natural
            k = (0, _Rev(nk[0]), nk[1])
        elif self.kind == 'linerev':   # forms natural, lines reversed
            k = (0, nk[0], _Rev(nk[1]))
        elif self.kind == 'hash':
            import hashlib
            h = hashlib.sha1(f'{self.salt}:{name}'.encode()).hexdigest()
            k = (0, h, ())
        else:
            raise ValueError(self.kind)
        return RankKey(name, k, self.compared)

    def describe(self):
        return dict(kind=self.kind, order=self.order, salt=self.salt)


class _Rev(object):
    __slots__ = ('v',)

    def __init__(self, v):
        self.v = v

    def __lt__(self, o):
        return o.v < self.v

    def __eq__(self, o):
        return self.v == o.v

    def __gt__(self, o):
        return o.v > self.v


def schedule_from(desc):
    if desc is None:
        return None
    return Schedule(desc['kind'], desc.get('order'), salt=desc.get('salt', 0))


# --------------------------------------------------------------------------
def make_store(file_inputs, layout=None):
    """file_inputs: dict 'form.key' -> string.  Returns an InputStore over a ConfigParser that *parsed* an INI text
    with these values (what reading the user's file does; ConfigParser.set() would refuse some texts a file may hold)"""
    cp = configparser.ConfigParser()
    items = list(file_inputs.items())
    if layout == 'reversed':
        items.reverse()
    secs = {}
    for name, s in items:
        sec, key = name.split('.')
        secs.setdefault(sec, []).append((key, s))
    text = []
    for sec, kv in secs.items():
        text.append(f'[{sec}]')
        for key, s in kv:
            text.append(f'{key} = ' + str(s).replace('\n', '\n\t'))
        text.append('')
    cp.read_string('\n'.join(text))
    return hinputs.InputStore(cp)


class Result(object):
    """everything observable about one solve"""
    __slots__ = ('verdict', 'exc', 'solution', 'unimpl', 'need_inputs', 'blocked', 'prompts',
                 'log', 'forms', 'final_inputs', 'solver', 'refused', 'unimpl_list', 'need_inputs_lists',
                 'blocked_lists', 'schedule', 'store', 'store_inputs', 'solution_unstable')

    def canon(self):
        if self.exc is not None:
            # which of several reachable abort points is hit first may depend on the
            # order; the properties only say "aborts with an error"
            return ('abort',)
        return (self.verdict, _freeze(self.solution), frozenset(self.unimpl),
                frozenset((k, frozenset(v)) for k, v in self.need_inputs.items()),
                frozenset((k, frozenset(v)) for k, v in self.blocked.items()),
                frozenset(self.forms))

    def outcome_class(self):
        if self.exc is not None:
            return 'abort:' + self.exc[0]
        if self.verdict:
            return 'solved'
        return 'failed:' + ('U' if self.unimpl else '') + ('I' if self.need_inputs else '') + ('B' if self.blocked else '')


def _freeze(sol):
    return frozenset((sec, frozenset(kv.items())) for sec, kv in sol.items())


def config_to_dict(cp):
    return {sec: dict(cp[sec]) for sec in cp.sections()}


def run_solve(form_list, requested, file_inputs, answer=None, schedule=None, instrument=True,
              layout=None, keep_solver=False, store=None, field_names=None, cpu_seconds=None):
    """One execution of the real solver.
    answer: None (no prompt function) or callable(input_obj, needed_by) -> string | None (refuse)
    """
    log = [] if instrument else None
    fl = instrumented(form_list, log) if instrument else list(form_list)
    if store is None:
        store = make_store(file_inputs, layout)
    # what the user supplied: the file as read at the start plus every typed answer (NOT read back from the store
    # after the run, so a store that alters what it was given is visible)
    supplied = {f'{sec}.{k}': v for sec in store.config.sections() for k, v in store.config.items(sec, raw=True)}
    prompts = []
    r = Result()
    r.refused = False

    asked_n = {}

    def prompt(missing, needed_by):
        n = missing.name()
        asked_n[n] = asked_n.get(n, 0) + 1
        if asked_n[n] > 4:
            # the same input keeps being asked although it is answered every time: the solve would never end
            raise NonTermination(f'{n} asked {asked_n[n]} times although answered each time')
        s = answer(missing, needed_by)
        prompts.append((missing.name(), [f.name() for f in needed_by], s))
        if s is None:
            r.refused = True
            return (None, False)
        supplied[n] = s
        return (s, True)

    s = hsolver.Solver(store, fl, prompt=prompt if answer is not None else None)
    hsolver._verif_key = schedule
    r.exc = None
    r.verdict = None
    try:
        try:
            with cpu_limit(cpu_seconds):
                r.verdict = s.solve(list(requested), list(field_names)) if field_names else s.solve(list(requested))
        finally:
            hsolver._verif_key = None
    except RecursionError as e:
        r.exc = ('RecursionError', '')
    except Exception as e:
        r.exc = (type(e).__name__, str(e)[:300])
    r.prompts = prompts
    r.log = log
    r.schedule = schedule
    r.store_inputs = {f'{sec}.{k}': v for sec in store.config.sections() for k, v in store.config.items(sec, raw=True)}
    r.final_inputs = supplied
    r.forms = sorted(s.forms)
    r.solution_unstable = None
    if r.exc is None:
        first = s.solution()
        r.solution = config_to_dict(first)
        # a caller may do what it likes with the object it was handed (the CLI adds a [habutax] section, fill-pdfs removes
        # one): the solver's own answer must not change
        try:
            first.add_section('zz_probe')
            for sec in list(first.sections())[:1]:
                for k in list(first[sec])[:1]:
                    first.remove_option(sec, k)
            again = config_to_dict(s.solution())
            again.pop('zz_probe', None) if False else None
            if again != r.solution:
                r.solution_unstable = sorted(set(again) ^ set(r.solution)) or 'options differ'
        except Exception as e:
            r.solution_unstable = f'{type(e).__name__}: {e}'
        r.unimpl_list = list(s.unimplemented_fields())
        r.unimpl = set(r.unimpl_list)
        r.need_inputs_lists = s.unmet_input_dependencies()
        r.blocked_lists = s.unmet_field_dependencies()
        r.need_inputs = {k: set(v) for k, v in r.need_inputs_lists.items() if v}
        r.blocked = {k: set(v) for k, v in r.blocked_lists.items() if v}
    else:
        # partial state, read without the public getters (they assert done)
        r.solution = config_to_dict(s._v.to_config(s._field_map)) if hasattr(s, '_v') else {}
        r.unimpl, r.need_inputs, r.blocked = set(), {}, {}
        r.unimpl_list, r.need_inputs_lists, r.blocked_lists = [], {}, {}
    r.solver = s if keep_solver else None
    r.store = store
    return r


def scripted_answer(answers, refuse_after=None):
    """answer function from a dict name->string; names not in the dict are refused.
    refuse_after: refuse at prompt index >= k"""
    state = {'n': 0}

    def answer(missing, needed_by):
        k = state['n']
        state['n'] += 1
        if refuse_after is not None and k >= refuse_after:
            return None
        return answers.get(missing.name())
    return answer
