#!/venv/bin/python
"""Print Tax Table rows in the textual format of habutax/forms/ty<year>/f1040_figure_tax.py,
generated from the independent statutory brackets (hv/statutory.py) with the midpoint rule.

  tools/gen_2021_rows.py                    rows missing from the 2021 table: [48000, 66000)
  tools/gen_2021_rows.py LO HI [YEAR]       rows covering [LO, HI) of YEAR (default 2021)
  tools/gen_2021_rows.py --verify [FILE]    regenerate every row that IS in the 2021 file and
                                            compare with the file text line by line

Columns: income min (inclusive), income max (exclusive), single, married filing jointly /
qualifying widow(er), married filing separately, head of household.
"""
import os, re, sys
sys.path.insert(0, os.path.dirname(os.path.dirname(os.path.abspath(__file__))))
from hv import statutory as S

COLUMNS = ('Single', 'MarriedFilingJointly', 'MarriedFilingSeparately', 'HeadOfHousehold')
GAP = (48000, 66000)


def row_text(year, lo, hi):
    cells = ', '.join(str(S.table_tax(year, st, lo)) for st in COLUMNS)
    return f'    ({lo}, {hi}, {cells}),'


def rows(year, lo, hi):
    return [row_text(year, a, b) for a, b in S.table_rows() if lo <= a and b <= hi]


def verify(path, year=2021):
    row_re = re.compile(r'^    \((\d+), (\d+), \d+, \d+, \d+, \d+\),$')
    n = bad = 0
    prev_hi = None
    insert_at = []
    with open(path) as f:
        for lineno, line in enumerate(f, 1):
            line = line.rstrip('\n')
            m = row_re.match(line)
            if not m:
                if line.startswith(')'):
                    break                      # end of TAX_TABLE
                continue
            lo, hi = int(m.group(1)), int(m.group(2))
            if prev_hi is not None and lo != prev_hi:
                insert_at.append((lineno, prev_hi, lo))
            prev_hi = hi
            n += 1
            if S.table_row(lo) != (lo, hi) or row_text(year, lo, hi) != line:
                bad += 1
                print(f'DIFF line {lineno}: file {line!r} generated {row_text(year, lo, hi)!r}')
    print(f'{path}: {n} table rows compared with generated text, {bad} differ')
    for lineno, a, b in insert_at:
        print(f'gap: rows for [{a}, {b}) are absent; insert {len(rows(year, a, b))} generated rows before line {lineno} '
              f'(i.e. after line {lineno - 1})')
    return 1 if bad else 0


def main(argv):
    if argv and argv[0] == '--verify':
        path = argv[1] if len(argv) > 1 else '/repo/habutax/forms/ty2021/f1040_figure_tax.py'
        return verify(path)
    lo, hi = (int(argv[0]), int(argv[1])) if len(argv) >= 2 else GAP
    year = int(argv[2]) if len(argv) >= 3 else 2021
    print('\n'.join(rows(year, lo, hi)))
    return 0


if __name__ == '__main__':
    sys.exit(main(sys.argv[1:]))
