#!/venv/bin/python
"""One-off generator of hv/gates.json (run on the repaired tree, output reviewed by hand and committed).

For every base return that solves, every single deviation (E3 alphabet) that turns it into a return that fails with an
unimplemented line or aborts on a deliberately absent form is a *declared unsupported situation in that context*.
The frozen table is what C09 replays: a later change that lets one of these returns solve is a dropped gate."""
import json, os, sys
sys.path.insert(0, '/verif')
os.environ.setdefault('HABUTAX_VERIF', '1')
import hv
from hv import e3, world, runner
from habutax import inputs as hi


def work(arg):
    year, bname, n, alt = arg
    base = e3.base_by_name(bname, year)
    r, asked = e3.run_return(year, base, {n: alt})
    consulted = any(a[0] == n for a in asked)
    return r.outcome_class(), sorted(r.unimpl)[:3], (r.exc or ('', ''))[1][:60], consulted


out = []
for year in (2021, 2022, 2023):
    for base in e3.bases_for(year):
        r, asked = e3.run_return(year, base, {})
        if not r.verdict:
            continue
        items = [(year, base.name, n, alt) for n, a, alts in asked for alt in alts]
        for (y, b, n, alt), (oc, un, msg, cons) in zip(items, runner.pmap(work, items)):
            if oc.startswith('failed:U') or (oc == 'abort:NotImplementedError' and 'is not supported' in msg):
                out.append(dict(year=y, base=b, input=n, value=alt, outcome=oc, unimplemented=un, message=msg))
json.dump(dict(entries=out), open('/verif/hv/gates.json', 'w'), indent=0)
print(len(out), 'gate contexts;', len(set((e['year'], e['input'], e['value']) for e in out)), 'distinct (year, input, value)')
