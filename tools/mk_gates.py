#!/venv/bin/python
"""One-off generator of hv/gates.json (run on the repaired tree; output reviewed by hand and committed).

entries:   for every base return that solves, every single deviation of a boolean input, or of one of the listed amount /
           count gates, that turns it into a return failing with an unimplemented line or aborting on a deliberately
           absent form: a *declared unsupported situation in that context* (C09 part B replays these).
refusing:  (year, line, boolean input) pairs such that EVERY explored execution of the line definition in which the input
           is read as True ends in not-implemented / an absent form (E4, d<=2): the line is a gate on that input
           (C09 part A: such a line reading yes never coexists with a solved verdict)."""
import fnmatch, json, os, sys
sys.path.insert(0, '/verif')
os.environ.setdefault('HABUTAX_VERIF', '1')
import hv
from hv import e3, e4, world, runner
from habutax import inputs as hi
from habutax.forms import available_forms

AMOUNT_GATES = ['1099-int:*.box_6', '1099-div:*.box_7', '1040.number_1099-int', '1040.number_1099-div', '1040.number_1099-oid',
                '8889:*.hsa_contributions', '8889:*.employer_contribution', '1040_s1.educator_expenses',
                '1040_sa.charitable_other_than_cash_check', '8889:*.archer_msa']


def work(arg):
    year, bname, n, alt = arg
    base = e3.base_by_name(bname, year)
    r, asked = e3.run_return(year, base, {n: alt})
    return r.outcome_class(), sorted(r.unimpl)[:3], (r.exc or ('', ''))[1][:60]


def e4work(arg):
    year, ci, inst, li = arg
    C = available_forms[year][ci]
    col = []
    r = e4.explore_line(year, C, inst, li, 2, 3000, collect=col)
    seen = {}
    for memo, out in col:
        for (kind, name), val in memo.items():
            if kind == 'i' and val is True:
                seen.setdefault(name, set()).add(out[0])
    return r['line'], {n: sorted(o) for n, o in seen.items()}


out = []
for year in (2021, 2022, 2023):
    for base in e3.bases_for(year):
        r, asked = e3.run_return(year, base, {})
        if not r.verdict:
            continue
        items = []
        for n, a, alts in asked:
            for alt in alts:
                if alt in ('yes', 'no') or any(fnmatch.fnmatchcase(n, p) for p in AMOUNT_GATES):
                    items.append((year, base.name, n, alt))
        for (y, b, n, alt), (oc, un, msg) in zip(items, runner.pmap(work, items)):
            if oc.startswith('failed:U') or (oc == 'abort:NotImplementedError' and 'is not supported' in msg):
                if un == ['1040.27'] and alt not in ('yes', 'no'):
                    continue      # the earned income credit became possible: not a declaration
                out.append(dict(year=y, base=b, input=n, value=alt, outcome=oc, unimplemented=un, message=msg))
items = e4.work_items()
refusing = []
for (year, ci, inst, li), (line, seen) in zip(items, runner.pmap(e4work, items)):
    for n, outs in seen.items():
        if set(outs) <= {'not-implemented', 'absent-form'}:
            refusing.append([year, line, n])
json.dump(dict(entries=out, refusing=sorted(refusing)), open('/verif/hv/gates.json', 'w'), indent=0)
print(len(out), 'gate contexts;', len(set((e['year'], e['input'], e['value']) for e in out)), 'distinct (year, input, value);',
      len(refusing), 'refusing (year, line, input) pairs')
