#!/bin/bash
# runs every claimed check of MANIFEST.json at the given tier, prints rc and wall time per check
cd "$(dirname "$0")/.."
tier=${1:-quick}
for id in $(python3 -c "import json;print(' '.join(c['property_id'] for c in json.load(open('MANIFEST.json'))['checks']))"); do
  t0=$(date +%s)
  ./check $id --tier $tier > /tmp/runall_$id.log 2>&1
  rc=$?
  t1=$(date +%s)
  echo "$id rc=$rc wall=$((t1-t0))s $(grep -c '^VIOLATION' /tmp/runall_$id.log) violations, $(grep -c '^KNOWN-FINDING' /tmp/runall_$id.log) known"
done
