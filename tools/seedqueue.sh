#!/bin/bash
# run seed tests sequentially: args like C07-1 C01b-2 ...
cd /verif
for s in "$@"; do
  p=${s%-*}; k=${s#*-}; prop=${p:0:3}
  tools/seedtest.py $s /tmp/seed_${p}_$k.diff /tmp/seed_${p}_${k}_demo.py $prop --checks $prop > /tmp/st_$s.log 2>&1
done
