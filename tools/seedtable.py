#!/usr/bin/env python3
"""prints the markdown table of seeded changes from /verif/seeded/*/meta.json (for DESIGN.md section 13)"""
import glob, json, os
rows = []
for f in sorted(glob.glob('/verif/seeded/*/meta.json')):
    m = json.load(open(f))
    caught = [c for c, v in m.get('checks', {}).items() if v.get('caught')]
    missed = [c for c, v in m.get('checks', {}).items() if not v.get('caught')]
    keys = []
    for c, v in m.get('checks', {}).items():
        keys += [k.replace('key=', '')[:70] for k in v.get('violation_keys', [])[:1]]
    rows.append((m['seed'], m['property'], 'yes' if m.get('confirmed') else 'NO', ', '.join(caught) or '-', ', '.join(missed) or '-',
                 (m.get('needs') or '')[:90], (keys[0] if keys else '')))
print('| seed | property | confirmed | caught by (quick) | missed by | needs | first violation key |')
print('|---|---|---|---|---|---|---|')
for r in rows:
    print('| ' + ' | '.join(x.replace('|', '/') for x in r) + ' |')
