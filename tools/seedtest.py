#!/usr/bin/env python3
"""Confirm a seeded change and run checks against it.

usage: tools/seedtest.py <seed-id> <patch.diff> <demo.py> <property> [--checks C01,C03] [--tier quick] [--keep]

1. scratch worktree of /repo HEAD under /tmp; demo on the clean tree must PASS
2. apply the patch; baseline tests must still pass (55); demo must FAIL
3. each listed check runs with HV_REPO=<worktree> (never /repo itself); a check "catches" the change when it prints VIOLATION
4. results go to /verif/seeded/<seed-id>/ (patch.diff, demo.py, meta.json); the worktree is removed."""
import argparse, json, os, shutil, subprocess, sys, time

ap = argparse.ArgumentParser()
ap.add_argument('seed'); ap.add_argument('patch'); ap.add_argument('demo'); ap.add_argument('prop')
ap.add_argument('--checks', default=None); ap.add_argument('--tier', default='quick'); ap.add_argument('--needs', default='')
a = ap.parse_args()
checks = (a.checks or a.prop).split(',')
wt = f'/tmp/seedwt_{a.seed}'
subprocess.run(['git', '-C', '/repo', 'worktree', 'remove', '--force', wt], capture_output=True)
subprocess.run(['git', '-C', '/repo', 'worktree', 'add', '-q', '--detach', wt, 'HEAD'], check=True)
meta = dict(seed=a.seed, property=a.prop, needs=a.needs, repo_head=subprocess.run(['git', '-C', '/repo', 'rev-parse', '--short', 'HEAD'], capture_output=True, text=True).stdout.strip())
env = dict(os.environ, PYTHONPATH=wt)
try:
    def demo():
        r = subprocess.run(['/venv/bin/python', '-W', 'ignore', a.demo], cwd=wt, env=env, capture_output=True, text=True, timeout=600)
        return r.returncode, (r.stdout + r.stderr)[-600:]
    rc0, out0 = demo()
    meta['demo_clean'] = dict(rc=rc0, tail=out0[-300:])
    r = subprocess.run(['git', 'apply', os.path.abspath(a.patch)], cwd=wt, capture_output=True, text=True)
    meta['applies'] = r.returncode == 0
    if r.returncode != 0:
        meta['apply_error'] = r.stderr[-400:]
        print(json.dumps(meta, indent=1)); sys.exit(2)
    t = subprocess.run(['/venv/bin/python', '-m', 'pytest', '-q', '-p', 'no:cacheprovider', '--continue-on-collection-errors'], cwd=wt, capture_output=True, text=True)
    meta['tests_with_change'] = t.stdout.strip().split('\n')[-1]
    rc1, out1 = demo()
    meta['demo_changed'] = dict(rc=rc1, tail=out1[-300:])
    meta['confirmed'] = (rc0 == 0 and rc1 != 0 and '55 passed' in meta['tests_with_change'])
    meta['checks'] = {}
    for c in checks:
        t0 = time.time()
        e = dict(os.environ, HV_REPO=wt, HV_REPLAYS=f'/tmp/hv_replays_{a.seed}')
        r = subprocess.run(['./check', c, '--tier', a.tier], cwd='/verif', env=e, capture_output=True, text=True)
        lines = [l for l in r.stdout.split('\n') if l.startswith('VIOLATION') or l.strip().startswith('key=')]
        meta['checks'][c] = dict(rc=r.returncode, caught=('VIOLATION' in r.stdout), violation_keys=[l.strip() for l in lines if 'key=' in l][:6],
                                 wall_s=round(time.time() - t0, 1), stderr_tail=r.stderr[-300:] if (r.returncode not in (0, 1) or 'VIOLATION' not in r.stdout and r.returncode != 0) else '')
    shutil.rmtree(f'/tmp/hv_replays_{a.seed}', ignore_errors=True)
finally:
    subprocess.run(['git', '-C', '/repo', 'worktree', 'remove', '--force', wt], capture_output=True)
d = f'/verif/seeded/{a.seed}'
os.makedirs(d, exist_ok=True)
shutil.copy(a.patch, os.path.join(d, 'patch.diff'))
shutil.copy(a.demo, os.path.join(d, 'demo.py'))
meta['ran'] = f'tools/seedtest.py {a.seed} ... --checks {",".join(checks)} --tier {a.tier}'
json.dump(meta, open(os.path.join(d, 'meta.json'), 'w'), indent=1)
print(json.dumps(meta, indent=1))
