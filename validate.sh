#!/bin/bash
# validates MANIFEST.json and all evidence files against the schemas
cd "$(dirname "$0")"
python3-vt - <<'PY'
import json, glob, jsonschema, sys
ms = json.load(open('/root/.vp/MANIFEST.schema.json'))
es = json.load(open('/root/.vp/EVIDENCE.schema.json'))
jsonschema.validate(json.load(open('MANIFEST.json')), ms)
bad = 0
for f in sorted(glob.glob('evidence/*.json')):
    try:
        jsonschema.validate(json.load(open(f)), es)
    except Exception as e:
        bad += 1
        print('INVALID', f, str(e)[:300])
print('manifest ok; evidence files:', len(glob.glob('evidence/*.json')), 'invalid:', bad)
sys.exit(1 if bad else 0)
PY
